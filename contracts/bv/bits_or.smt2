; justification of axiom bits_or at 64 bits: refute its negation over bit-vectors.
; Int-level UFs bvand64/bvor64/bvshl64 denote these operations on the 64-bit representation.
(set-logic QF_BV)
(declare-const a (_ BitVec 64))
(declare-const k (_ BitVec 64))
(declare-const j (_ BitVec 64))
(assert (bvult k #x0000000000000040))
(assert (bvult j #x0000000000000040))
(assert (not (= (not (= (bvand (bvor a (bvshl #x0000000000000001 k)) (bvshl #x0000000000000001 j)) #x0000000000000000))
                (or (= k j) (not (= (bvand a (bvshl #x0000000000000001 j)) #x0000000000000000))))))
(check-sat)
