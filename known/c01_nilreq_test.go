package tests

// Demonstration of the known finding C01/c01_nilreq (see /verif/known_findings.json):
// a nil non-optional struct pointer (field or list element) whose type has a required field
// is written as an empty struct, and the decoder rejects that message.
// Run against the real code with
//   cd /repo/tests && go test -overlay <(echo '{"Replace":{"/repo/tests/zz_known_test.go":"/verif/known/c01_nilreq_test.go"}}') -vet=off -run TestKnownC01NilReq .
// It FAILS (that is the finding).

import (
	"testing"

	"github.com/cloudwego/frugal"
)

type knownReqInner struct {
	A int32 `frugal:"1,required,i32"`
}

type knownReqOuter struct {
	In *knownReqInner   `frugal:"1,default,knownReqInner"`
	L  []*knownReqInner `frugal:"2,default,list<knownReqInner>"`
}

func TestKnownC01NilReq(t *testing.T) {
	for _, v := range []*knownReqOuter{{}, {In: &knownReqInner{A: 1}, L: []*knownReqInner{nil}}} {
		buf := make([]byte, frugal.EncodedSize(v))
		n, err := frugal.EncodeObject(buf, nil, v)
		if err != nil {
			t.Fatal(err)
		}
		var w knownReqOuter
		if _, err := frugal.DecodeObject(buf[:n], &w); err != nil {
			t.Errorf("encoded %x, decode: %v", buf[:n], err)
		}
	}
}
