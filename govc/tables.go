package govc

import (
	"fmt"
	"go/constant"
	"go/types"
	"math/big"
	"sort"

	"golang.org/x/tools/go/ssa"
)

// tableInfo describes a package-level array whose contents are fixed by the
// package initializer (composite literal with constant elements) and which no
// other code writes.
type tableInfo struct {
	G       *ssa.Global
	Len     int64
	Elem    types.Type
	Entries map[int64]*ssa.Const // non-zero entries
	OK      bool
	Why     string
}

// tableOf analyses global g (cached).
func (w *World) tableOf(g *ssa.Global) *tableInfo {
	if ti, ok := w.Tables[g]; ok {
		return ti
	}
	ti := &tableInfo{G: g, Entries: map[int64]*ssa.Const{}}
	w.Tables[g] = ti
	at, ok := g.Type().Underlying().(*types.Pointer).Elem().Underlying().(*types.Array)
	if !ok {
		ti.Why = "not an array"
		return ti
	}
	ti.Len = at.Len()
	ti.Elem = at.Elem()
	switch at.Elem().Underlying().(type) {
	case *types.Basic:
	default:
		ti.Why = "element type is not basic"
		return ti
	}
	ti.OK = true
	// every use of g in the program must be: IndexAddr followed by loads only,
	// except inside the package initializer where constant stores are collected.
	for _, f := range allFuncs(w.Prog, g.Pkg) {
		isInit := f.Name() == "init" && f.Synthetic != ""
		for _, b := range f.Blocks {
			for _, in := range b.Instrs {
				ia, ok := in.(*ssa.IndexAddr)
				if !ok || ia.X != g {
					// any other operand use of g?
					for _, op := range in.Operands(nil) {
						if *op == ssa.Value(g) {
							if _, isIA := in.(*ssa.IndexAddr); !isIA {
								if _, isDbg := in.(*ssa.DebugRef); !isDbg {
									ti.OK = false
									ti.Why = fmt.Sprintf("global used by %T in %s", in, f.Name())
								}
							}
						}
					}
					continue
				}
				for _, r := range *ia.Referrers() {
					switch s := r.(type) {
					case *ssa.Store:
						if s.Addr != ia {
							ti.OK = false
							ti.Why = "element address stored"
							continue
						}
						idx, iok := constOf(ia.Index)
						c, cok := s.Val.(*ssa.Const)
						if !isInit || !iok || !cok {
							ti.OK = false
							ti.Why = fmt.Sprintf("non-constant store to table in %s", f.Name())
							continue
						}
						ti.Entries[idx.Int64()] = c
					case *ssa.UnOp, *ssa.DebugRef:
					default:
						ti.OK = false
						ti.Why = fmt.Sprintf("element address used by %T", r)
					}
				}
			}
		}
	}
	return ti
}

// globalFacts asserts what is known about a global at function entry.
func (fv *FuncVC) globalFacts(g *ssa.Global, addr Term) {
	et := g.Type().Underlying().(*types.Pointer).Elem()
	if al := fv.TE.Alignof(et); al > 1 {
		fv.assumeGlobal(eq(mk(SInt, "mod", addr, intLit(al)), intLit(0)))
	}
	at, ok := et.Underlying().(*types.Array)
	if !ok {
		return
	}
	if fv.Fn != nil && fv.Fn.Name() == "init" && fv.Fn.Synthetic != "" {
		return
	}
	ti := fv.W.tableOf(g)
	if !ti.OK {
		return
	}
	fv.tablesUsed[g.Name()] = true
	esz := fv.TE.Sizeof(at.Elem())
	hn := fv.scalarHeapName(at.Elem())
	h := fv.heap(fv.entry, hn, fv.TE.SortOf(at.Elem()))
	var idxs []int64
	for k := range ti.Entries {
		idxs = append(idxs, k)
	}
	sort.Slice(idxs, func(i, j int) bool { return idxs[i] < idxs[j] })
	isBool := fv.TE.SortOf(at.Elem()) == SBool
	isStr := fv.TE.SortOf(at.Elem()) == SStr
	if isStr {
		return // string tables: contents not modelled
	}
	// value at index k: ite-chain
	val := "0"
	if isBool {
		val = "false"
	}
	for i := len(idxs) - 1; i >= 0; i-- {
		c := ti.Entries[idxs[i]]
		var v string
		switch c.Value.Kind() {
		case constant.Bool:
			v = fmt.Sprint(constant.BoolVal(c.Value))
		case constant.Int:
			bi, _ := new(big.Int).SetString(c.Value.ExactString(), 10)
			v = bigLit(bi).S
		default:
			return
		}
		val = fmt.Sprintf("(ite (= a!t (+ %s %d)) %s %s)", addr.S, idxs[i]*esz, v, val)
	}
	fv.assumeGlobal(Term{S: fmt.Sprintf("(forall ((a!t Int)) (! (=> (and (<= %s a!t) (< a!t (+ %s %d))) (= (select %s a!t) %s)) :pattern ((select %s a!t))))",
		addr.S, addr.S, ti.Len*esz, h.S, val, h.S), Sort: SBool})
}
