package govc

import (
	"fmt"
	"os"
	"sort"
)

// Main is the entry point of the govc command.
func Main(args []string) int {
	if len(args) == 0 {
		fmt.Fprintln(os.Stderr, "usage: govc dump|check|list ...")
		return 2
	}
	switch args[0] {
	case "prop":
		return cmdProp(args[1:])
	case "check":
		return cmdCheck(args[1:])
	case "hist":
		return cmdHist(args[1:])
	case "dump":
		return cmdDump(args[1:])
	}
	fmt.Fprintln(os.Stderr, "unknown command", args[0])
	return 2
}

func cmdDump(args []string) int {
	p, err := Load(RepoDir, "./...")
	if err != nil {
		fmt.Fprintln(os.Stderr, err)
		return 2
	}
	pkg := p.ByPath[args[0]]
	if pkg == nil {
		fmt.Fprintln(os.Stderr, "no package", args[0])
		return 2
	}
	var names []string
	for n := range pkg.Members {
		names = append(names, n)
	}
	sort.Strings(names)
	for _, f := range allFuncs(p, pkg) {
		if len(args) > 1 && f.String() != args[1] && f.Name() != args[1] {
			continue
		}
		f.WriteTo(os.Stdout)
	}
	return 0
}
