package govc

import (
	"fmt"
	"go/types"
	"os"
	"path/filepath"

	"golang.org/x/tools/go/packages"
	"golang.org/x/tools/go/ssa"
	"golang.org/x/tools/go/ssa/ssautil"
)

// Program is the loaded repository: packages, SSA (naive form) and sizes.
type Program struct {
	Pkgs   []*packages.Package
	SSA    *ssa.Program
	ByPath map[string]*ssa.Package
	Sizes  types.Sizes
	Dir    string
}

// RepoDir is the repository under verification. GOVC_REPO redirects a run to a scratch copy (used
// by the seed tools, so that /repo itself is never patched); such a run writes its queries, replays
// and evidence under GOVC_OUT instead of /verif/out and /verif/evidence.
var RepoDir = "/repo"

// EvidenceDir is where evidence files go ("" = <root>/evidence).
var EvidenceDir = ""

func init() {
	if d := os.Getenv("GOVC_REPO"); d != "" {
		RepoDir = d
		out := os.Getenv("GOVC_OUT")
		if out == "" {
			out = filepath.Join(os.TempDir(), "govc-out")
		}
		OutDir = filepath.Join(out, "out")
		EvidenceDir = filepath.Join(out, "evidence")
	}
}

// Load loads the packages of /repo (non-test files, tag verif) and builds SSA.
func Load(dir string, patterns ...string) (*Program, error) {
	cfg := &packages.Config{
		Mode:       packages.LoadAllSyntax,
		Dir:        dir,
		BuildFlags: []string{"-tags=verif"},
		Env: append(os.Environ(), "GOFLAGS=-mod=mod", "GOPROXY=off", "GOSUMDB=off",
			"GOTOOLCHAIN=local", "GOARCH=amd64", "GOOS=linux"),
		Tests: false,
	}
	pkgs, err := packages.Load(cfg, patterns...)
	if err != nil {
		return nil, err
	}
	n := 0
	packages.Visit(pkgs, nil, func(p *packages.Package) {
		for _, e := range p.Errors {
			fmt.Fprintln(os.Stderr, "load error:", e)
			n++
		}
	})
	if n > 0 {
		return nil, fmt.Errorf("%d load errors", n)
	}
	prog, spkgs := ssautil.AllPackages(pkgs, ssa.NaiveForm|ssa.GlobalDebug|ssa.InstantiateGenerics)
	prog.Build()
	p := &Program{Pkgs: pkgs, SSA: prog, ByPath: map[string]*ssa.Package{}, Dir: dir,
		Sizes: types.SizesFor("gc", "amd64")}
	for _, sp := range spkgs {
		if sp != nil {
			p.ByPath[sp.Pkg.Path()] = sp
		}
	}
	for _, sp := range prog.AllPackages() {
		p.ByPath[sp.Pkg.Path()] = sp
	}
	return p, nil
}
