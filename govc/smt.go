package govc

import (
	"fmt"
	"go/types"
	"math/big"
	"sort"
	"strings"
)

// Sort names used in the SMT encoding.
const (
	SInt   = "Int"
	SBool  = "Bool"
	SSlice = "Slice" // (mk.Slice sl.ptr sl.len sl.cap)
	SStr   = "Str"   // (mk.Str st.ptr st.len)
	SBSeq  = "BSeq"  // abstract byte sequence (accumulator abstraction)
	SHeap  = "(Array Int Int)"
	SHeapB = "(Array Int Bool)"
)

// Term is an SMT term with its sort and (when known) its Go type.
type Term struct {
	S    string
	Sort string
	T    types.Type
}

func (t Term) String() string { return t.S }

func mk(sort string, f string, args ...Term) Term {
	if len(args) == 0 {
		return Term{S: f, Sort: sort}
	}
	var sb strings.Builder
	sb.WriteString("(")
	sb.WriteString(f)
	for _, a := range args {
		sb.WriteString(" ")
		sb.WriteString(a.S)
	}
	sb.WriteString(")")
	return Term{S: sb.String(), Sort: sort}
}

func intLit(n int64) Term {
	if n < 0 {
		return Term{S: fmt.Sprintf("(- %d)", -n), Sort: SInt}
	}
	return Term{S: fmt.Sprintf("%d", n), Sort: SInt}
}

func bigLit(n *big.Int) Term {
	if n.Sign() < 0 {
		return Term{S: "(- " + new(big.Int).Neg(n).String() + ")", Sort: SInt}
	}
	return Term{S: n.String(), Sort: SInt}
}

func pow2(k uint) *big.Int { return new(big.Int).Lsh(big.NewInt(1), k) }

var (
	tTrue  = Term{S: "true", Sort: SBool}
	tFalse = Term{S: "false", Sort: SBool}
)

func and(ts ...Term) Term {
	var xs []Term
	for _, t := range ts {
		if t.S == "true" {
			continue
		}
		if t.S == "false" {
			return tFalse
		}
		xs = append(xs, t)
	}
	if len(xs) == 0 {
		return tTrue
	}
	if len(xs) == 1 {
		return xs[0]
	}
	return mk(SBool, "and", xs...)
}

func or(ts ...Term) Term {
	var xs []Term
	for _, t := range ts {
		if t.S == "false" {
			continue
		}
		if t.S == "true" {
			return tTrue
		}
		xs = append(xs, t)
	}
	if len(xs) == 0 {
		return tFalse
	}
	if len(xs) == 1 {
		return xs[0]
	}
	return mk(SBool, "or", xs...)
}

func not(t Term) Term {
	if t.S == "true" {
		return tFalse
	}
	if t.S == "false" {
		return tTrue
	}
	return mk(SBool, "not", t)
}

func implies(a, b Term) Term {
	if a.S == "true" {
		return b
	}
	if a.S == "false" || b.S == "true" {
		return tTrue
	}
	return mk(SBool, "=>", a, b)
}

func eq(a, b Term) Term {
	if a.S == b.S {
		return tTrue
	}
	return mk(SBool, "=", a, b)
}
func ite(c, a, b Term) Term {
	if c.S == "true" {
		return a
	}
	if c.S == "false" {
		return b
	}
	r := mk(a.Sort, "ite", c, a, b)
	r.T = a.T
	return r
}
func add(a, b Term) Term {
	if b.S == "0" {
		return a
	}
	if a.S == "0" {
		return b
	}
	return mk(SInt, "+", a, b)
}
func sub(a, b Term) Term {
	if b.S == "0" {
		return a
	}
	return mk(SInt, "-", a, b)
}
func mul(a, b Term) Term {
	if a.S == "1" {
		return b
	}
	if b.S == "1" {
		return a
	}
	return mk(SInt, "*", a, b)
}
func le(a, b Term) Term     { return mk(SBool, "<=", a, b) }
func lt(a, b Term) Term     { return mk(SBool, "<", a, b) }
func sel(h, a Term) Term    { return mk(elemSortOf(h.Sort), "select", h, a) }
func sto(h, a, v Term) Term { return mk(h.Sort, "store", h, a, v) }

func elemSortOf(arr string) string {
	// "(Array Int X)" -> X
	if strings.HasPrefix(arr, "(Array Int ") {
		return arr[len("(Array Int ") : len(arr)-1]
	}
	return SInt
}

func arrSort(elem string) string { return "(Array Int " + elem + ")" }

// sexprArgs splits "(f a b c)" into its head and top-level arguments.
func sexprArgs(s string) (string, []string) {
	if len(s) < 2 || s[0] != '(' || s[len(s)-1] != ')' {
		return s, nil
	}
	body := s[1 : len(s)-1]
	var parts []string
	d := 0
	start := 0
	for i := 0; i <= len(body); i++ {
		if i == len(body) || (body[i] == ' ' && d == 0) {
			if i > start {
				parts = append(parts, body[start:i])
			}
			start = i + 1
			continue
		}
		switch body[i] {
		case '(':
			d++
		case ')':
			d--
		}
	}
	if len(parts) == 0 {
		return s, nil
	}
	return parts[0], parts[1:]
}

// proj applies selector sel to a datatype term, simplifying sel(mk(...)) syntactically.
func proj(sel string, ctor string, idx int, s Term) Term {
	if strings.HasPrefix(s.S, "("+ctor+" ") {
		if h, args := sexprArgs(s.S); h == ctor && idx < len(args) {
			return Term{S: args[idx], Sort: SInt}
		}
	}
	return mk(SInt, sel, s)
}

// slice / string projections
func slPtr(s Term) Term { return proj("sl.ptr", "mk.Slice", 0, s) }
func slLen(s Term) Term { return proj("sl.len", "mk.Slice", 1, s) }
func slCap(s Term) Term { return proj("sl.cap", "mk.Slice", 2, s) }
func mkSlice(p, l, c Term) Term {
	return mk(SSlice, "mk.Slice", p, l, c)
}
func stPtr(s Term) Term { return proj("st.ptr", "mk.Str", 0, s) }
func stLen(s Term) Term { return proj("st.len", "mk.Str", 1, s) }
func mkStr(p, l Term) Term {
	return mk(SStr, "mk.Str", p, l)
}

// mangle turns an arbitrary Go type string / name into an SMT simple symbol.
func mangle(s string) string {
	var sb strings.Builder
	for _, r := range s {
		switch {
		case r >= 'a' && r <= 'z', r >= 'A' && r <= 'Z', r >= '0' && r <= '9', r == '_', r == '.':
			sb.WriteRune(r)
		case r == '*':
			sb.WriteString("p.")
		case r == '[':
			sb.WriteString("$")
		case r == ']':
			sb.WriteString("$")
		case r == '/':
			sb.WriteString(".")
		case r == ' ', r == ',', r == '(', r == ')', r == '{', r == '}', r == ';':
			sb.WriteString("_")
		default:
			sb.WriteString("_")
		}
	}
	return sb.String()
}

// shortTypeName gives a compact, package-qualified-when-needed name for a type.
func shortTypeName(t types.Type) string {
	return types.TypeString(t, func(p *types.Package) string {
		switch p.Path() {
		case "github.com/cloudwego/frugal/internal/reflect":
			return ""
		}
		return p.Name()
	})
}

// ---------------------------------------------------------------------------
// Sorts from Go types

// TypeEnv caches sort information for Go types and records datatype
// declarations needed by a query.
type TypeEnv struct {
	Sizes   types.Sizes
	structs map[string]*structSort // by sort name
	order   []string
}

type structSort struct {
	Name   string
	St     *types.Struct
	Fields []structField
}

type structField struct {
	Name   string // selector function name
	Sort   string
	Off    int64
	Type   types.Type
	GoName string
}

func NewTypeEnv(sz types.Sizes) *TypeEnv {
	return &TypeEnv{Sizes: sz, structs: map[string]*structSort{}}
}

func isUnsafePointer(t types.Type) bool {
	b, ok := t.Underlying().(*types.Basic)
	return ok && b.Kind() == types.UnsafePointer
}

// OpaqueTypes lists named struct types modelled as opaque values (one Int), declared by
// the contract constant "opaquetypes": their fields are never accessed by verified code.
var OpaqueTypes = map[string]bool{}

func isOpaque(t types.Type) bool {
	if n, ok := t.(*types.Named); ok {
		if _, isStruct := n.Underlying().(*types.Struct); isStruct {
			return OpaqueTypes[n.Obj().Name()] || OpaqueTypes[n.Obj().Pkg().Name()+"."+n.Obj().Name()]
		}
	}
	return false
}

// SortOf returns the SMT sort representing values of Go type t.
func (te *TypeEnv) SortOf(t types.Type) string {
	if isOpaque(t) {
		return SInt
	}
	switch u := t.Underlying().(type) {
	case *types.Basic:
		switch {
		case u.Info()&types.IsBoolean != 0:
			return SBool
		case u.Info()&types.IsString != 0:
			return SStr
		default:
			return SInt
		}
	case *types.Pointer, *types.Map, *types.Chan, *types.Signature, *types.Interface:
		return SInt
	case *types.Slice:
		return SSlice
	case *types.Array:
		return arrSort(te.SortOf(u.Elem()))
	case *types.Struct:
		return te.structSortOf(t, u).Name
	case *types.Tuple:
		return "Tuple"
	}
	return SInt
}

func (te *TypeEnv) structSortOf(t types.Type, st *types.Struct) *structSort {
	name := "D." + mangle(shortTypeName(t))
	if s, ok := te.structs[name]; ok {
		return s
	}
	s := &structSort{Name: name, St: st}
	te.structs[name] = s
	var vars []*types.Var
	for i := 0; i < st.NumFields(); i++ {
		vars = append(vars, st.Field(i))
	}
	offs := te.Sizes.Offsetsof(vars)
	for i, v := range vars {
		s.Fields = append(s.Fields, structField{
			Name:   name + "." + mangle(v.Name()),
			Sort:   te.SortOf(v.Type()),
			Off:    offs[i],
			Type:   v.Type(),
			GoName: v.Name(),
		})
	}
	te.order = append(te.order, name)
	return s
}

// StructInfo returns field layout info for a struct type.
func (te *TypeEnv) StructInfo(t types.Type) *structSort {
	if isOpaque(t) {
		return nil
	}
	st, ok := t.Underlying().(*types.Struct)
	if !ok {
		return nil
	}
	return te.structSortOf(t, st)
}

// Decls returns datatype declarations for all struct sorts seen so far, in
// dependency order.
func (te *TypeEnv) Decls() string {
	var sb strings.Builder
	sb.WriteString("(declare-datatypes ((Slice 0)) (((mk.Slice (sl.ptr Int) (sl.len Int) (sl.cap Int)))))\n")
	sb.WriteString("(declare-datatypes ((Str 0)) (((mk.Str (st.ptr Int) (st.len Int)))))\n")
	for _, n := range te.order {
		s := te.structs[n]
		sb.WriteString("(declare-datatypes ((" + n + " 0)) (((mk." + n)
		for _, f := range s.Fields {
			sb.WriteString(" (" + f.Name + " " + f.Sort + ")")
		}
		sb.WriteString("))))\n")
	}
	return sb.String()
}

func (te *TypeEnv) Sizeof(t types.Type) int64  { return te.Sizes.Sizeof(t) }
func (te *TypeEnv) Alignof(t types.Type) int64 { return te.Sizes.Alignof(t) }

// intRange returns (lo, hi, ok) for integer-like Go types: values satisfy lo <= v <= hi.
func intRange(t types.Type) (*big.Int, *big.Int, bool) {
	b, ok := t.Underlying().(*types.Basic)
	if !ok {
		return nil, nil, false
	}
	s := func(w uint) (*big.Int, *big.Int, bool) {
		lo := new(big.Int).Neg(pow2(w - 1))
		hi := new(big.Int).Sub(pow2(w-1), big.NewInt(1))
		return lo, hi, true
	}
	u := func(w uint) (*big.Int, *big.Int, bool) {
		return big.NewInt(0), new(big.Int).Sub(pow2(w), big.NewInt(1)), true
	}
	switch b.Kind() {
	case types.Int, types.Int64:
		return s(64)
	case types.Int8:
		return s(8)
	case types.Int16:
		return s(16)
	case types.Int32:
		return s(32)
	case types.Uint, types.Uint64, types.Uintptr:
		return u(64)
	case types.Uint8:
		return u(8)
	case types.Uint16:
		return u(16)
	case types.Uint32:
		return u(32)
	case types.UnsafePointer:
		return u(64)
	case types.UntypedInt, types.UntypedRune:
		return nil, nil, false
	}
	return nil, nil, false
}

func isSigned(t types.Type) bool {
	b, ok := t.Underlying().(*types.Basic)
	return ok && b.Info()&types.IsInteger != 0 && b.Info()&types.IsUnsigned == 0
}

func isUnsignedInt(t types.Type) bool {
	b, ok := t.Underlying().(*types.Basic)
	return ok && b.Info()&types.IsInteger != 0 && b.Info()&types.IsUnsigned != 0
}

func isIntegerType(t types.Type) bool {
	b, ok := t.Underlying().(*types.Basic)
	return ok && b.Info()&types.IsInteger != 0
}

func bitWidth(t types.Type) uint {
	lo, hi, ok := intRange(t)
	if !ok {
		return 64
	}
	return uint(new(big.Int).Sub(hi, lo).BitLen())
}

// rangeFact returns the typing fact for a term of Go type t (true if none).
func (te *TypeEnv) rangeFact(v Term, t types.Type) Term {
	switch u := under(t).(type) {
	case *types.Basic:
		if lo, hi, ok := intRange(t); ok {
			return and(le(bigLit(lo), v), le(v, bigLit(hi)))
		}
		if u.Info()&types.IsString != 0 {
			return and(le(intLit(0), stLen(v)), le(intLit(0), stPtr(v)), lt(stPtr(v), bigLit(pow2(63))), le(stLen(v), bigLit(new(big.Int).Sub(pow2(63), big.NewInt(1)))))
		}
	case *types.Slice:
		return and(le(intLit(0), slLen(v)), le(slLen(v), slCap(v)), le(intLit(0), slPtr(v)), lt(slPtr(v), bigLit(pow2(63))), le(slCap(v), bigLit(new(big.Int).Sub(pow2(63), big.NewInt(1)))),
			implies(eq(slPtr(v), intLit(0)), eq(slCap(v), intLit(0))))
	case *types.Pointer, *types.Map, *types.Chan, *types.Signature:
		return and(le(intLit(0), v), lt(v, bigLit(pow2(63))))
	case *types.Struct:
		si := te.structSortOf(t, u)
		var fs []Term
		for _, f := range si.Fields {
			fs = append(fs, te.rangeFact(mk(f.Sort, f.Name, v), f.Type))
		}
		return and(fs...)
	}
	return tTrue
}

// wrapTo converts a mathematical integer term to the value range of Go type t
// (two's complement wrap-around).
func wrapTo(v Term, t types.Type) Term {
	lo, hi, ok := intRange(t)
	if !ok {
		return v
	}
	w := uint(new(big.Int).Sub(hi, lo).BitLen())
	m := bigLit(pow2(w))
	r := mk(SInt, "mod", v, m)
	if lo.Sign() < 0 {
		// signed: ((v + 2^(w-1)) mod 2^w) - 2^(w-1)
		h := bigLit(pow2(w - 1))
		r = sub(mk(SInt, "mod", add(v, h), m), h)
	}
	return r
}

func sortedKeys[V any](m map[string]V) []string {
	var ks []string
	for k := range m {
		ks = append(ks, k)
	}
	sort.Strings(ks)
	return ks
}

// under is t.Underlying(), except that opaque struct types look like a plain word.
func under(t types.Type) types.Type {
	if isOpaque(t) {
		return types.Typ[types.Uintptr]
	}
	return t.Underlying()
}
