package govc

import (
	"fmt"
	"go/constant"
	"go/token"
	"go/types"
	"sort"
	"strings"

	"golang.org/x/tools/go/ssa"
)

// Registration tables: package-level Go maps that are filled only by calls
// register(k..., f) with constant keys from package initializers, e.g.
// listAppendFuncs and mapAppendFuncs. They are read back from the SSA of init on
// every run (so a changed row changes the verification conditions) after checking
// that nothing else writes them.

type regRow struct {
	Keys []int64
	Fn   *ssa.Function
	Pos  token.Pos
}

type regTable struct {
	G     *ssa.Global
	Reg   *ssa.Function
	Rows  []regRow
	OK    bool
	Why   string
	NKeys int
}

func (w *World) regTableOf(g *ssa.Global) *regTable {
	if w.RegTabs == nil {
		w.RegTabs = map[*ssa.Global]*regTable{}
	}
	if rt, ok := w.RegTabs[g]; ok {
		return rt
	}
	rt := &regTable{G: g}
	w.RegTabs[g] = rt
	mt, ok := g.Type().Underlying().(*types.Pointer).Elem().Underlying().(*types.Map)
	if !ok {
		rt.Why = "not a map"
		return rt
	}
	if _, ok := mt.Elem().Underlying().(*types.Signature); !ok {
		rt.Why = "values are not functions"
		return rt
	}
	// all writes to the map
	var regs []*ssa.Function
	bad := ""
	for _, f := range allFuncs(w.Prog, g.Pkg) {
		for _, b := range f.Blocks {
			for _, in := range b.Instrs {
				switch x := in.(type) {
				case *ssa.MapUpdate:
					if u, ok := x.Map.(*ssa.UnOp); ok && u.X == ssa.Value(g) {
						regs = append(regs, f)
					}
				case *ssa.Store:
					if x.Addr == ssa.Value(g) {
						if !(f.Name() == "init" && f.Synthetic != "") {
							bad = "global reassigned in " + f.Name()
						}
					}
				case *ssa.Call:
					if bi, ok := x.Call.Value.(*ssa.Builtin); ok && bi.Name() == "delete" {
						if u, ok := x.Call.Args[0].(*ssa.UnOp); ok && u.X == ssa.Value(g) {
							bad = "delete on table in " + f.Name()
						}
					}
				}
			}
		}
	}
	if bad != "" || len(regs) != 1 {
		rt.Why = fmt.Sprintf("%s (writers: %d)", bad, len(regs))
		return rt
	}
	rt.Reg = regs[0]
	np := len(rt.Reg.Params)
	rt.NKeys = np - 1
	// every call of the registration function must sit in an init function with constant keys
	for _, f := range allFuncs(w.Prog, g.Pkg) {
		for _, b := range f.Blocks {
			for _, in := range b.Instrs {
				c, ok := in.(*ssa.Call)
				if !ok || c.Call.StaticCallee() != rt.Reg {
					continue
				}
				if !strings.HasPrefix(f.Name(), "init") {
					rt.Why = "registration outside init: " + f.Name()
					return rt
				}
				row := regRow{Pos: c.Pos()}
				for i := 0; i < np-1; i++ {
					k, ok := c.Call.Args[i].(*ssa.Const)
					if !ok || k.Value == nil || k.Value.Kind() != constant.Int {
						rt.Why = "non-constant key"
						return rt
					}
					v, _ := constant.Int64Val(k.Value)
					row.Keys = append(row.Keys, v)
				}
				fn := funcOf(c.Call.Args[np-1])
				if fn == nil {
					rt.Why = "non-static function value"
					return rt
				}
				row.Fn = fn
				rt.Rows = append(rt.Rows, row)
			}
		}
	}
	sort.SliceStable(rt.Rows, func(i, j int) bool { return rt.Rows[i].Pos < rt.Rows[j].Pos })
	rt.OK = true
	return rt
}

func funcOf(v ssa.Value) *ssa.Function {
	switch x := v.(type) {
	case *ssa.Function:
		return x
	case *ssa.ChangeType:
		return funcOf(x.X)
	case *ssa.MakeClosure:
		if f, ok := x.Fn.(*ssa.Function); ok && len(x.Bindings) == 0 {
			return f
		}
	}
	return nil
}

// later rows overwrite earlier ones with the same key (Go map semantics)
func (rt *regTable) effective() []regRow {
	seen := map[string]int{}
	var out []regRow
	for _, r := range rt.Rows {
		k := fmt.Sprint(r.Keys)
		if i, ok := seen[k]; ok {
			out[i] = r
			continue
		}
		seen[k] = len(out)
		out = append(out, r)
	}
	return out
}

// tableLookup models m[k] for a registration table: (value, ok).
func (fv *FuncVC) tableLookup(rt *regTable, key Term, keyT types.Type) (Term, Term) {
	fv.regTabsUsed[rt.G.Name()] = true
	var has []Term
	val := intLit(0)
	rows := rt.effective()
	for i := len(rows) - 1; i >= 0; i-- {
		r := rows[i]
		var c Term
		if si := fv.TE.StructInfo(keyT); si != nil {
			var eqs []Term
			for j, f := range si.Fields {
				eqs = append(eqs, eq(mk(f.Sort, f.Name, key), intLit(r.Keys[j])))
			}
			c = and(eqs...)
		} else {
			c = eq(key, intLit(r.Keys[0]))
		}
		has = append(has, c)
		val = ite(c, fv.funcConst(r.Fn), val)
	}
	return val, or(has...)
}

// constName finds a named constant of type t with value v (for readable row names).
func (w *World) constName(pkg *ssa.Package, typeName string, v int64) string {
	best := ""
	for name, m := range pkg.Members {
		c, ok := m.(*ssa.NamedConst)
		if !ok {
			continue
		}
		if n, ok := c.Type().(*types.Named); !ok || n.Obj().Name() != typeName {
			continue
		}
		if cv, ok := constant.Int64Val(c.Value.Value); ok && cv == v {
			if best == "" || name < best {
				best = name
			}
		}
	}
	if best == "" {
		return fmt.Sprint(v)
	}
	return best
}

// RowObligations: for every row (keys -> f) of the named table, the row premise (contract
// macro rowpremise.<table>) together with the key equalities implies f's row condition (the
// requires clauses labelled c02_row of f's contract).
func (w *World) RowObligations(table string) ([]*Obligation, []string) {
	var out []*Obligation
	var errs []string
	pkg := w.Prog.ByPath["github.com/cloudwego/frugal/internal/reflect"]
	g, ok := pkg.Members[table].(*ssa.Global)
	if !ok {
		return nil, []string{"no global " + table}
	}
	rt := w.regTableOf(g)
	if !rt.OK {
		return nil, []string{"registration table " + table + " cannot be read back from init: " + rt.Why}
	}
	prem, ok := w.CS.Macros["rowpremise."+table]
	if !ok {
		return nil, []string{"no macro rowpremise." + table}
	}
	keyExpr, ok := w.CS.Macros["rowkeys."+table]
	if !ok {
		return nil, []string{"no macro rowkeys." + table}
	}
	keyExprs := strings.Split(keyExpr, ";")
	for _, r := range rt.effective() {
		var names []string
		for _, k := range r.Keys {
			names = append(names, w.constName(pkg, "ttype", k))
		}
		key := w.FuncKey(r.Fn)
		name := fmt.Sprintf("init#%s/row(%s)->%s", table, strings.Join(names, ","), r.Fn.Name())
		fc := w.CS.Funcs[key]
		if fc == nil {
			errs = append(errs, name+": registered function has no contract")
			continue
		}
		fv := w.newBareVC("init#" + table)
		func() {
			defer func() {
				if rec := recover(); rec != nil {
					if s, ok := rec.(vcAbort); ok {
						fv.errorf("%s", string(s))
						return
					}
					panic(rec)
				}
			}()
			env := fv.newEnv(fv.entry, fv.entry)
			env.callee = true
			tT, _ := fv.resolveType("*tType")
			tv := fv.declare("row.t", SInt)
			tv.T = tT
			pv := fv.declare("row.p", SInt)
			pv.T = types.Typ[types.UnsafePointer]
			bv := fv.declare("row.b", SBSeq)
			env.vars["t"] = tv
			env.vars["p"] = pv
			env.vars["b"] = bv
			pe, err := ParseExpr(prem)
			if err != nil {
				fv.abort("rowpremise: %v", err)
			}
			fv.assume(env.boolExpr(pe, "rowpremise."+table))
			for i, ke := range keyExprs {
				e, err := ParseExpr(strings.TrimSpace(ke))
				if err != nil {
					fv.abort("rowkeys: %v", err)
				}
				fv.assume(eq(env.intExpr(e, "rowkeys."+table), intLit(r.Keys[i])))
			}
			// goal: the row condition of the registered function
			var goals []Term
			formals := fc.Params
			fenv := fv.newEnv(fv.entry, fv.entry)
			fenv.callee = true
			if len(formals) == 3 {
				fenv.vars[formals[0].Name] = tv
				fenv.vars[formals[1].Name] = bv
				fenv.vars[formals[2].Name] = pv
			}
			n := 0
			for _, c := range fc.Requires {
				if c.Name != "c02_row" {
					continue
				}
				goals = append(goals, fenv.boolExpr(c.E, c.Pos))
				n++
			}
			if n == 0 {
				fv.abort("contract of %s has no requires clause labelled c02_row", key)
			}
			o := fv.oblige("row", "", and(goals...), token.NoPos, "table row selects a function whose row condition holds")
			if o != nil {
				o.Name = name
				o.Pos = fv.pos(r.Pos)
			}
		}()
		fv.finish()
		if len(fv.Errors) > 0 {
			errs = append(errs, name+": "+strings.Join(fv.Errors, "; "))
			continue
		}
		out = append(out, fv.Obls...)
	}
	return out, errs
}
