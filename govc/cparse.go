package govc

import (
	"fmt"
	"os"
	"path/filepath"
	"strconv"
	"strings"
	"unicode"
)

// ---------------------------------------------------------------------------
// Contract expression AST

type Expr interface{ exprNode() }

type (
	EIdent struct{ Name string }
	EInt   struct{ Val string }
	EStr   struct{ Val string }
	EBool  struct{ Val bool }
	ENil   struct{}
	EUnary struct {
		Op string
		X  Expr
	}
	EBinary struct {
		Op   string
		X, Y Expr
	}
	ECond struct{ C, A, B Expr }
	ECall struct {
		Fun  string
		Args []Expr
	}
	ESel struct {
		X   Expr
		Sel string
	}
	EIndex struct{ X, I Expr }
	ESlice struct{ X, Lo, Hi Expr }
	EQuant struct {
		Forall   bool
		Vars     []Param
		Triggers [][]Expr
		Body     Expr
	}
	ETypeConv struct { // conversion to a Go type written as type expr, e.g. (*tType)(x): not supported; int(x) goes through ECall
	}
)

func (EIdent) exprNode()  {}
func (EInt) exprNode()    {}
func (EStr) exprNode()    {}
func (EBool) exprNode()   {}
func (ENil) exprNode()    {}
func (EUnary) exprNode()  {}
func (EBinary) exprNode() {}
func (ECond) exprNode()   {}
func (ECall) exprNode()   {}
func (ESel) exprNode()    {}
func (EIndex) exprNode()  {}
func (ESlice) exprNode()  {}
func (EQuant) exprNode()  {}

// Param is a name with a type expression (Go type syntax, or a spec sort).
type Param struct {
	Name string
	Type string
}

// ---------------------------------------------------------------------------
// Lexer

type tok struct {
	k string // ident int str op eof
	s string
}

func lex(src string) ([]tok, error) {
	var out []tok
	i := 0
	n := len(src)
	for i < n {
		c := src[i]
		switch {
		case c == ' ' || c == '\t' || c == '\n':
			i++
		case unicode.IsLetter(rune(c)) || c == '_' || c == '$':
			j := i + 1
			for j < n && (unicode.IsLetter(rune(src[j])) || unicode.IsDigit(rune(src[j])) || src[j] == '_' || src[j] == '$') {
				j++
			}
			out = append(out, tok{"ident", src[i:j]})
			i = j
		case c >= '0' && c <= '9':
			j := i + 1
			for j < n && (src[j] >= '0' && src[j] <= '9' || src[j] == 'x' || src[j] >= 'a' && src[j] <= 'f' || src[j] >= 'A' && src[j] <= 'F' || src[j] == '_') {
				j++
			}
			out = append(out, tok{"int", strings.ReplaceAll(src[i:j], "_", "")})
			i = j
		case c == '"':
			j := i + 1
			for j < n && src[j] != '"' {
				if src[j] == '\\' {
					j++
				}
				j++
			}
			if j >= n {
				return nil, fmt.Errorf("unterminated string")
			}
			s, err := strconv.Unquote(src[i : j+1])
			if err != nil {
				return nil, err
			}
			out = append(out, tok{"str", s})
			i = j + 1
		case c == '\'':
			j := i + 1
			for j < n && src[j] != '\'' {
				if src[j] == '\\' {
					j++
				}
				j++
			}
			r, _, _, err := strconv.UnquoteChar(src[i+1:j], '\'')
			if err != nil {
				return nil, err
			}
			out = append(out, tok{"int", strconv.Itoa(int(r))})
			i = j + 1
		default:
			ops := []string{"<==>", "==>", "::", "==", "!=", "<=", ">=", "&&", "||", "<<", ">>", "&^", "..",
				"+", "-", "*", "/", "%", "<", ">", "!", "(", ")", "[", "]", "{", "}", ",", ".", ":", "?", "&", "|", "^", "=", ";"}
			found := false
			for _, op := range ops {
				if strings.HasPrefix(src[i:], op) {
					out = append(out, tok{"op", op})
					i += len(op)
					found = true
					break
				}
			}
			if !found {
				return nil, fmt.Errorf("unexpected character %q", c)
			}
		}
	}
	out = append(out, tok{"eof", ""})
	return out, nil
}

type parser struct {
	toks []tok
	pos  int
}

func (p *parser) peek() tok { return p.toks[p.pos] }
func (p *parser) next() tok { t := p.toks[p.pos]; p.pos++; return t }
func (p *parser) isOp(s string) bool {
	t := p.peek()
	return t.k == "op" && t.s == s
}
func (p *parser) accept(s string) bool {
	if p.isOp(s) {
		p.pos++
		return true
	}
	return false
}
func (p *parser) expect(s string) error {
	if !p.accept(s) {
		return fmt.Errorf("expected %q, got %q", s, p.peek().s)
	}
	return nil
}

// ParseExpr parses a contract expression.
func ParseExpr(src string) (Expr, error) {
	toks, err := lex(src)
	if err != nil {
		return nil, fmt.Errorf("%v in %q", err, src)
	}
	p := &parser{toks: toks}
	e, err := p.parseExpr()
	if err != nil {
		return nil, fmt.Errorf("%v in %q", err, src)
	}
	if p.peek().k != "eof" {
		return nil, fmt.Errorf("trailing %q in %q", p.peek().s, src)
	}
	return e, nil
}

// precedence: lowest first
// <==>  ;  ==> (right assoc) ; ?: ; || ; && ; comparison ; + - | ^ ; * / % << >> & &^ ; unary

func (p *parser) parseExpr() (Expr, error) {
	t := p.peek()
	if t.k == "ident" && (t.s == "forall" || t.s == "exists") {
		return p.parseQuant()
	}
	return p.parseIff()
}

func (p *parser) parseQuant() (Expr, error) {
	q := EQuant{Forall: p.next().s == "forall"}
	// vars: name Type {, name Type} ::
	for {
		var names []string
		for {
			t := p.next()
			if t.k != "ident" {
				return nil, fmt.Errorf("quantifier variable expected, got %q", t.s)
			}
			names = append(names, t.s)
			// "a, b int" form: comma followed by ident followed by something that is not "::"
			if p.isOp(",") {
				// lookahead: ident then (type start)? treat as shared type list
				save := p.pos
				p.pos++
				if p.peek().k == "ident" {
					// could be next var of same type or new decl; decide after reading type
					// we treat "a, b T" as shared type
					continue
				}
				p.pos = save
			}
			break
		}
		ty, err := p.parseTypeString()
		if err != nil {
			return nil, err
		}
		for _, n := range names {
			q.Vars = append(q.Vars, Param{n, ty})
		}
		if p.accept(",") {
			continue
		}
		break
	}
	if err := p.expect("::"); err != nil {
		return nil, err
	}
	for p.isOp("{") {
		p.pos++
		var trig []Expr
		for {
			e, err := p.parseIff()
			if err != nil {
				return nil, err
			}
			trig = append(trig, e)
			if !p.accept(",") {
				break
			}
		}
		if err := p.expect("}"); err != nil {
			return nil, err
		}
		q.Triggers = append(q.Triggers, trig)
	}
	body, err := p.parseExpr()
	if err != nil {
		return nil, err
	}
	q.Body = body
	return q, nil
}

// parseTypeString reads a Go-ish type: *T, []T, pkg.T, T
func (p *parser) parseTypeString() (string, error) {
	var sb strings.Builder
	for {
		if p.accept("*") {
			sb.WriteString("*")
			continue
		}
		if p.isOp("[") {
			p.pos++
			if err := p.expect("]"); err != nil {
				return "", err
			}
			sb.WriteString("[]")
			continue
		}
		break
	}
	t := p.next()
	if t.k != "ident" {
		return "", fmt.Errorf("type name expected, got %q", t.s)
	}
	sb.WriteString(t.s)
	if p.isOp(".") {
		p.pos++
		t2 := p.next()
		if t2.k != "ident" {
			return "", fmt.Errorf("type name expected after '.'")
		}
		sb.WriteString("." + t2.s)
	}
	return sb.String(), nil
}

func (p *parser) parseIff() (Expr, error) {
	x, err := p.parseImpl()
	if err != nil {
		return nil, err
	}
	for p.accept("<==>") {
		y, err := p.parseImpl()
		if err != nil {
			return nil, err
		}
		x = EBinary{"<==>", x, y}
	}
	return x, nil
}

func (p *parser) parseImpl() (Expr, error) {
	x, err := p.parseCond()
	if err != nil {
		return nil, err
	}
	if p.accept("==>") {
		var y Expr
		t := p.peek()
		if t.k == "ident" && (t.s == "forall" || t.s == "exists") {
			y, err = p.parseQuant()
		} else {
			y, err = p.parseImpl()
		}
		if err != nil {
			return nil, err
		}
		return EBinary{"==>", x, y}, nil
	}
	return x, nil
}

func (p *parser) parseCond() (Expr, error) {
	c, err := p.parseBin(0)
	if err != nil {
		return nil, err
	}
	if p.accept("?") {
		a, err := p.parseCond()
		if err != nil {
			return nil, err
		}
		if err := p.expect(":"); err != nil {
			return nil, err
		}
		b, err := p.parseCond()
		if err != nil {
			return nil, err
		}
		return ECond{c, a, b}, nil
	}
	return c, nil
}

var binLevels = [][]string{
	{"||"},
	{"&&"},
	{"==", "!=", "<", "<=", ">", ">="},
	{"+", "-", "|", "^"},
	{"*", "/", "%", "<<", ">>", "&", "&^"},
}

func (p *parser) parseBin(level int) (Expr, error) {
	if level == len(binLevels) {
		return p.parseUnary()
	}
	x, err := p.parseBin(level + 1)
	if err != nil {
		return nil, err
	}
	for {
		matched := false
		for _, op := range binLevels[level] {
			if p.isOp(op) {
				p.pos++
				var y Expr
				t := p.peek()
				if level <= 1 && t.k == "ident" && (t.s == "forall" || t.s == "exists") {
					y, err = p.parseQuant()
				} else {
					y, err = p.parseBin(level + 1)
				}
				if err != nil {
					return nil, err
				}
				x = EBinary{op, x, y}
				matched = true
				break
			}
		}
		if !matched {
			return x, nil
		}
	}
}

func (p *parser) parseUnary() (Expr, error) {
	if p.accept("!") {
		x, err := p.parseUnary()
		if err != nil {
			return nil, err
		}
		return EUnary{"!", x}, nil
	}
	if p.accept("-") {
		x, err := p.parseUnary()
		if err != nil {
			return nil, err
		}
		return EUnary{"-", x}, nil
	}
	if p.accept("^") {
		x, err := p.parseUnary()
		if err != nil {
			return nil, err
		}
		return EUnary{"^", x}, nil
	}
	if p.accept("*") {
		x, err := p.parseUnary()
		if err != nil {
			return nil, err
		}
		return EUnary{"*", x}, nil
	}
	if p.accept("&") {
		x, err := p.parseUnary()
		if err != nil {
			return nil, err
		}
		return EUnary{"&", x}, nil
	}
	return p.parsePostfix()
}

func (p *parser) parsePostfix() (Expr, error) {
	x, err := p.parsePrimary()
	if err != nil {
		return nil, err
	}
	for {
		switch {
		case p.isOp("."):
			p.pos++
			t := p.next()
			if t.k != "ident" {
				return nil, fmt.Errorf("selector expected, got %q", t.s)
			}
			// pkg.Name(args) call or pkg-qualified ident handled in translation
			if p.isOp("(") {
				if id, ok := x.(EIdent); ok {
					args, err := p.parseArgs()
					if err != nil {
						return nil, err
					}
					x = ECall{id.Name + "." + t.s, args}
					continue
				}
			}
			x = ESel{x, t.s}
		case p.isOp("["):
			p.pos++
			var lo, hi Expr
			if !p.isOp(":") {
				lo, err = p.parseExpr()
				if err != nil {
					return nil, err
				}
			}
			if p.accept(":") {
				if !p.isOp("]") {
					hi, err = p.parseExpr()
					if err != nil {
						return nil, err
					}
				}
				if err := p.expect("]"); err != nil {
					return nil, err
				}
				x = ESlice{x, lo, hi}
			} else {
				if err := p.expect("]"); err != nil {
					return nil, err
				}
				x = EIndex{x, lo}
			}
		default:
			return x, nil
		}
	}
}

func (p *parser) parseArgs() ([]Expr, error) {
	if err := p.expect("("); err != nil {
		return nil, err
	}
	var args []Expr
	if p.accept(")") {
		return args, nil
	}
	for {
		e, err := p.parseExpr()
		if err != nil {
			return nil, err
		}
		args = append(args, e)
		if p.accept(",") {
			continue
		}
		break
	}
	if err := p.expect(")"); err != nil {
		return nil, err
	}
	return args, nil
}

func (p *parser) parsePrimary() (Expr, error) {
	t := p.next()
	switch t.k {
	case "int":
		return EInt{t.s}, nil
	case "str":
		return EStr{t.s}, nil
	case "ident":
		switch t.s {
		case "true":
			return EBool{true}, nil
		case "false":
			return EBool{false}, nil
		case "nil":
			return ENil{}, nil
		case "forall", "exists":
			p.pos--
			return p.parseQuant()
		}
		if p.isOp("(") {
			args, err := p.parseArgs()
			if err != nil {
				return nil, err
			}
			return ECall{t.s, args}, nil
		}
		return EIdent{t.s}, nil
	case "op":
		if t.s == "(" {
			e, err := p.parseExpr()
			if err != nil {
				return nil, err
			}
			if err := p.expect(")"); err != nil {
				return nil, err
			}
			return e, nil
		}
	}
	return nil, fmt.Errorf("unexpected token %q", t.s)
}

// ---------------------------------------------------------------------------
// Contract items

// Clause is one requires/ensures/invariant/... line with its source position.
type Clause struct {
	Kind string // requires ensures modifies invariant decreases ...
	Loop int    // loop ordinal for invariant/decreases (-1 if n/a)
	Src  string
	E    Expr
	Pos  string
	Name string // optional label "name:" in front of the expression
}

// FuncContract is a contract attached to a function (real or trusted).
type FuncContract struct {
	Key       string // e.g. "reflect.(*span).Malloc" or "reflect.appendUint16"
	Pkg       string // package short name (directory-derived)
	Recv      *Param
	RecvPtr   bool
	Name      string
	Params    []Param
	Results   []Param
	Trusted   bool // assumed, not verified
	Dyn       bool // contract for calls through a struct field of func type
	Requires  []Clause
	Ensures   []Clause
	Modifies  []Clause
	Invs      []Clause // Kind invariant, Loop set
	LoopDecr  []Clause
	LoopMods  []Clause // "loop N modifies ..." (optional extra havoc)
	LoopHints []Clause // "loop N hint e": intermediate facts proved at the back edges
	Decr      []Clause
	Opts      map[string]string // mode, abstract, reveal ...
	Pos       string
	Props     []string // properties this contract contributes to (from "props" clause)
	Ghost     []Param  // ghost parameters
	CallGhost []Clause // "call f#k ghost name = expr"
	After     []Clause // "after f#k ghost $x = expr" : ghost assignment right after a call site
	Entry     []Clause // "entry ghost $x = expr"     : ghost assignment at function entry
	Exit      []Clause // "exit ghost $x = expr"      : ghost assignment at every return, before the postconditions
	Asserts   []Clause
}

// SpecFunc is a specification function.
type SpecFunc struct {
	Name    string
	Params  []Param
	Result  string
	Body    Expr // nil for uninterpreted
	BodySrc string
	Opaque  bool
	UF      bool
	Rec     bool
	Reads   []string
	Pos     string
	SMT     string // raw SMT definition (escape hatch)
}

// Axiom / lemma
type Axiom struct {
	Name  string
	Src   string
	E     Expr
	Lemma bool
	Pos   string
	Props []string
	Hint  string // for lemmas: extra options
}

// Contracts is the set of all parsed contract items.
type Contracts struct {
	Funcs  map[string]*FuncContract
	Body   map[string]*FuncContract // verified body contracts of functions whose caller-side contract is assumed
	Specs  map[string]*SpecFunc
	Axioms []*Axiom
	Consts map[string]string
	Macros map[string]string
	Order  []string
	Files  []string
}

func NewContracts() *Contracts {
	return &Contracts{Funcs: map[string]*FuncContract{}, Body: map[string]*FuncContract{}, Specs: map[string]*SpecFunc{}, Consts: map[string]string{}}
}

var clauseKeywords = map[string]bool{
	"requires": true, "ensures": true, "modifies": true, "loop": true, "decreases": true,
	"abstract": true, "mode": true, "reveal": true, "use": true, "ghost": true, "panics": true,
	"props": true, "call": true, "pure": true, "assert": true, "opt": true, "after": true, "entry": true, "exit": true,
}

// ParseContractFile reads //@ lines of a file.
func (c *Contracts) ParseContractFile(path string, pkgShort string) error {
	data, err := os.ReadFile(path)
	if err != nil {
		return err
	}
	c.Files = append(c.Files, path)
	type line = cline
	var lines []line
	for i, l := range strings.Split(string(data), "\n") {
		t := strings.TrimSpace(l)
		var body string
		switch {
		case strings.HasPrefix(t, "//@"):
			body = t[3:]
		case strings.HasPrefix(t, "// @"):
			body = t[4:]
		default:
			continue
		}
		if strings.HasPrefix(strings.TrimSpace(body), "#") { // comment inside contracts
			continue
		}
		lines = append(lines, line{body, i + 1})
	}
	lines2, err := expandFamilies(lines, c, filepath.Base(path))
	if err != nil {
		return err
	}
	lines = nil
	for _, l := range lines2 {
		lines = append(lines, line{l.s, l.no})
	}
	// group into items: an item header is a line with no leading indentation beyond one space
	i := 0
	for i < len(lines) {
		hdr := lines[i]
		pos := fmt.Sprintf("%s:%d", filepath.Base(path), hdr.no)
		h := strings.TrimSpace(hdr.s)
		i++
		// collect clause lines: those starting with at least two spaces
		var cl []line
		for i < len(lines) && (strings.HasPrefix(lines[i].s, "  ") || strings.HasPrefix(lines[i].s, "\t")) {
			cl = append(cl, lines[i])
			i++
		}
		if h == "" {
			continue
		}
		// join continuation lines
		var clauses []line
		for _, l := range cl {
			t := strings.TrimSpace(l.s)
			if t == "" {
				continue
			}
			w := t
			if k := strings.IndexAny(t, " \t"); k >= 0 {
				w = t[:k]
			}
			if clauseKeywords[w] || len(clauses) == 0 {
				clauses = append(clauses, line{t, l.no})
			} else {
				clauses[len(clauses)-1].s += " " + t
			}
		}
		word := h
		if k := strings.IndexAny(h, " \t"); k >= 0 {
			word = h[:k]
		}
		rest := strings.TrimSpace(h[len(word):])
		switch word {
		case "const":
			kv := strings.SplitN(rest, "=", 2)
			if len(kv) != 2 {
				return fmt.Errorf("%s: bad const", pos)
			}
			c.Consts[strings.TrimSpace(kv[0])] = strings.TrimSpace(kv[1])
		case "spec":
			// continuation lines belong to the body
			for _, l := range clauses {
				rest += " " + l.s
			}
			sf, err := parseSpec(rest, pos)
			if err != nil {
				return fmt.Errorf("%s: %v", pos, err)
			}
			c.Specs[sf.Name] = sf
		case "axiom", "lemma":
			props := []string{}
			hint := ""
			for _, l := range clauses {
				if strings.HasPrefix(l.s, "props ") {
					props = strings.Fields(l.s[6:])
				} else if strings.HasPrefix(l.s, "opt ") {
					hint = strings.TrimSpace(l.s[4:])
				} else {
					rest += " " + l.s
				}
			}
			kv := strings.SplitN(rest, ":", 2)
			if len(kv) != 2 || strings.Contains(kv[0], " ") {
				return fmt.Errorf("%s: axiom/lemma needs 'name: expr'", pos)
			}
			e, err := ParseExpr(kv[1])
			if err != nil {
				return fmt.Errorf("%s: %v", pos, err)
			}
			c.Axioms = append(c.Axioms, &Axiom{Name: strings.TrimSpace(kv[0]), Src: strings.TrimSpace(kv[1]), E: e, Lemma: word == "lemma", Pos: pos, Props: props, Hint: hint})
		case "func", "trusted", "dyn":
			fc, err := parseFuncHeader(word, rest, pkgShort)
			if err != nil {
				return fmt.Errorf("%s: %v", pos, err)
			}
			fc.Pos = pos
			for _, l := range clauses {
				if err := parseClause(fc, l.s, fmt.Sprintf("%s:%d", filepath.Base(path), l.no)); err != nil {
					return fmt.Errorf("%s:%d: %v", filepath.Base(path), l.no, err)
				}
			}
			if prev, dup := c.Funcs[fc.Key]; dup {
				// an assumed contract (what callers rely on) plus a verified "body" contract (what is
				// proved of the code today) may coexist for one function
				switch {
				case prev.Trusted && !fc.Trusted && c.Body[fc.Key] == nil:
					c.Body[fc.Key] = fc
					c.Order = append(c.Order, fc.Key)
				case !prev.Trusted && fc.Trusted && c.Body[fc.Key] == nil:
					c.Body[fc.Key] = prev
					c.Funcs[fc.Key] = fc
				default:
					return fmt.Errorf("%s: duplicate contract for %s", pos, fc.Key)
				}
				break
			}
			c.Funcs[fc.Key] = fc
			c.Order = append(c.Order, fc.Key)
		default:
			return fmt.Errorf("%s: unknown item %q", pos, word)
		}
	}
	return nil
}

func parseSpec(rest string, pos string) (*SpecFunc, error) {
	sf := &SpecFunc{Pos: pos}
	for {
		switch {
		case strings.HasPrefix(rest, "opaque "):
			sf.Opaque = true
			rest = strings.TrimSpace(rest[7:])
			continue
		case strings.HasPrefix(rest, "uf "):
			sf.UF = true
			rest = strings.TrimSpace(rest[3:])
			continue
		case strings.HasPrefix(rest, "rec "):
			sf.Rec = true
			rest = strings.TrimSpace(rest[4:])
			continue
		}
		break
	}
	if !strings.HasPrefix(rest, "func ") {
		return nil, fmt.Errorf("spec: 'func' expected")
	}
	rest = strings.TrimSpace(rest[5:])
	op := strings.Index(rest, "(")
	if op < 0 {
		return nil, fmt.Errorf("spec: '(' expected")
	}
	sf.Name = strings.TrimSpace(rest[:op])
	cl := matchParen(rest, op)
	if cl < 0 {
		return nil, fmt.Errorf("spec: unbalanced parens")
	}
	ps, err := parseParams(rest[op+1 : cl])
	if err != nil {
		return nil, err
	}
	sf.Params = ps
	rest = strings.TrimSpace(rest[cl+1:])
	// result type up to '=' or "reads" or end
	body := ""
	if k := strings.Index(rest, "="); k >= 0 {
		body = strings.TrimSpace(rest[k+1:])
		rest = strings.TrimSpace(rest[:k])
	}
	if k := strings.Index(rest, " reads "); k >= 0 {
		for _, r := range strings.Split(rest[k+7:], ",") {
			sf.Reads = append(sf.Reads, strings.TrimSpace(r))
		}
		rest = strings.TrimSpace(rest[:k])
	}
	sf.Result = rest
	if sf.Result == "" {
		sf.Result = "bool"
	}
	if body != "" {
		if strings.HasPrefix(body, "smt ") {
			sf.SMT = strings.TrimSpace(body[4:])
		} else {
			e, err := ParseExpr(body)
			if err != nil {
				return nil, err
			}
			sf.Body = e
			sf.BodySrc = body
		}
	}
	return sf, nil
}

func matchParen(s string, open int) int {
	d := 0
	for i := open; i < len(s); i++ {
		switch s[i] {
		case '(':
			d++
		case ')':
			d--
			if d == 0 {
				return i
			}
		}
	}
	return -1
}

// parseParams parses "a, b T, c U" lists (Go style, names required).
func parseParams(s string) ([]Param, error) {
	s = strings.TrimSpace(s)
	if s == "" {
		return nil, nil
	}
	var out []Param
	var pending []string
	for _, part := range splitTop(s, ',') {
		part = strings.TrimSpace(part)
		fs := strings.Fields(part)
		switch len(fs) {
		case 1:
			pending = append(pending, fs[0])
		default:
			name := fs[0]
			ty := strings.Join(fs[1:], " ")
			for _, pn := range pending {
				out = append(out, Param{pn, ty})
			}
			pending = nil
			out = append(out, Param{name, ty})
		}
	}
	if len(pending) > 0 {
		return nil, fmt.Errorf("parameters without type: %v", pending)
	}
	return out, nil
}

func splitTop(s string, sep byte) []string {
	var out []string
	d := 0
	last := 0
	for i := 0; i < len(s); i++ {
		switch s[i] {
		case '(', '[', '{':
			d++
		case ')', ']', '}':
			d--
		default:
			if s[i] == sep && d == 0 {
				out = append(out, s[last:i])
				last = i + 1
			}
		}
	}
	out = append(out, s[last:])
	return out
}

// parseFuncHeader parses:  func (s *span) Malloc(n, align int) (ret unsafe.Pointer)
// trusted func sync.(*Pool).Get(p *sync.Pool) (r any)   -- key given literally before '('
// dyn tType.AppendFunc(self *tType, t *tType, ...) (r []byte, err error)
func parseFuncHeader(word, rest, pkgShort string) (*FuncContract, error) {
	fc := &FuncContract{Opts: map[string]string{}, Pkg: pkgShort}
	switch word {
	case "trusted":
		fc.Trusted = true
		if !strings.HasPrefix(rest, "func ") {
			return nil, fmt.Errorf("'trusted func' expected")
		}
		rest = strings.TrimSpace(rest[5:])
	case "dyn":
		fc.Dyn = true
	}
	if word == "func" || word == "trusted" {
		if strings.HasPrefix(rest, "(") && !fc.Trusted {
			cl := matchParen(rest, 0)
			ps, err := parseParams(rest[1:cl])
			if err != nil || len(ps) != 1 {
				return nil, fmt.Errorf("bad receiver")
			}
			fc.Recv = &ps[0]
			rest = strings.TrimSpace(rest[cl+1:])
		}
	}
	// name up to the '(' that starts the parameter list: the name itself may
	// contain parens, e.g. sync.(*Pool).Get — find the last top-level "(" group pair.
	// Strategy: scan for first '(' that is preceded by an identifier char.
	op := -1
	for i := 0; i < len(rest); i++ {
		if rest[i] == '(' && i > 0 && (isIdentChar(rest[i-1]) || rest[i-1] == ']') {
			op = i
			break
		}
	}
	if op < 0 {
		return nil, fmt.Errorf("parameter list expected in %q", rest)
	}
	fc.Name = strings.TrimSpace(rest[:op])
	cl := matchParen(rest, op)
	if cl < 0 {
		return nil, fmt.Errorf("unbalanced parens")
	}
	ps, err := parseParams(rest[op+1 : cl])
	if err != nil {
		return nil, err
	}
	fc.Params = ps
	rest = strings.TrimSpace(rest[cl+1:])
	if strings.HasPrefix(rest, "(") {
		cl := matchParen(rest, 0)
		rs, err := parseParams(rest[1:cl])
		if err != nil {
			return nil, err
		}
		fc.Results = rs
	} else if rest != "" {
		return nil, fmt.Errorf("results must be named and parenthesised: %q", rest)
	}
	switch {
	case fc.Dyn:
		fc.Key = "dyn:" + fc.Name
	case fc.Trusted:
		fc.Key = fc.Name
	case fc.Recv != nil:
		ty := fc.Recv.Type
		if strings.HasPrefix(ty, "*") {
			fc.RecvPtr = true
			fc.Key = pkgShort + ".(*" + ty[1:] + ")." + fc.Name
		} else {
			fc.Key = pkgShort + ".(" + ty + ")." + fc.Name
		}
	default:
		fc.Key = pkgShort + "." + fc.Name
	}
	return fc, nil
}

func isIdentChar(c byte) bool {
	return c == '_' || c >= 'a' && c <= 'z' || c >= 'A' && c <= 'Z' || c >= '0' && c <= '9'
}

func parseClause(fc *FuncContract, s string, pos string) error {
	w := s
	rest := ""
	if k := strings.IndexAny(s, " \t"); k >= 0 {
		w = s[:k]
		rest = strings.TrimSpace(s[k:])
	}
	mkc := func(kind string, loop int, src string) (Clause, error) {
		name := ""
		// optional "label:" prefix — only if label is an identifier followed by ':' and not '::'
		if k := strings.Index(src, ":"); k > 0 && !strings.HasPrefix(src[k:], "::") && isPlainIdent(src[:k]) {
			name = src[:k]
			src = strings.TrimSpace(src[k+1:])
		}
		e, err := ParseExpr(src)
		if err != nil {
			return Clause{}, err
		}
		return Clause{Kind: kind, Loop: loop, Src: src, E: e, Pos: pos, Name: name}, nil
	}
	switch w {
	case "requires":
		c, err := mkc(w, -1, rest)
		if err != nil {
			return err
		}
		fc.Requires = append(fc.Requires, c)
	case "ensures":
		c, err := mkc(w, -1, rest)
		if err != nil {
			return err
		}
		fc.Ensures = append(fc.Ensures, c)
	case "assert":
		c, err := mkc(w, -1, rest)
		if err != nil {
			return err
		}
		fc.Asserts = append(fc.Asserts, c)
	case "decreases":
		c, err := mkc(w, -1, rest)
		if err != nil {
			return err
		}
		fc.Decr = append(fc.Decr, c)
	case "modifies":
		for _, part := range splitTop(rest, ',') {
			part = strings.TrimSpace(part)
			if part == "nothing" || part == "" {
				fc.Opts["modifies_nothing"] = "1"
				continue
			}
			e, err := ParseExpr(part)
			if err != nil {
				return err
			}
			fc.Modifies = append(fc.Modifies, Clause{Kind: w, Loop: -1, Src: part, E: e, Pos: pos})
		}
		if _, ok := fc.Opts["has_modifies"]; !ok {
			fc.Opts["has_modifies"] = "1"
		}
	case "loop":
		fs := strings.Fields(rest)
		if len(fs) < 3 {
			return fmt.Errorf("loop N invariant|decreases|modifies|hint expr")
		}
		n, err := strconv.Atoi(fs[0])
		if err != nil {
			return fmt.Errorf("loop ordinal: %v", err)
		}
		src := strings.TrimSpace(strings.TrimPrefix(strings.TrimSpace(strings.TrimPrefix(rest, fs[0])), fs[1]))
		switch fs[1] {
		case "invariant":
			c, err := mkc("invariant", n, src)
			if err != nil {
				return err
			}
			fc.Invs = append(fc.Invs, c)
		case "decreases":
			c, err := mkc("decreases", n, src)
			if err != nil {
				return err
			}
			fc.LoopDecr = append(fc.LoopDecr, c)
		case "hint":
			// proof hint: checked at every back edge before the invariants, then assumed
			c, err := mkc("hint", n, src)
			if err != nil {
				return err
			}
			fc.LoopHints = append(fc.LoopHints, c)
		case "modifies":
			for _, part := range splitTop(src, ',') {
				e, err := ParseExpr(strings.TrimSpace(part))
				if err != nil {
					return err
				}
				fc.LoopMods = append(fc.LoopMods, Clause{Kind: "modifies", Loop: n, Src: part, E: e, Pos: pos})
			}
		default:
			return fmt.Errorf("loop clause %q", fs[1])
		}
	case "ghost":
		ps, err := parseParams(rest)
		if err != nil {
			return err
		}
		fc.Ghost = append(fc.Ghost, ps...)
	case "call":
		// call NAME#k ghost x = expr
		fs := strings.SplitN(rest, " ghost ", 2)
		if len(fs) != 2 {
			return fmt.Errorf("call f#k ghost x = e")
		}
		kv := strings.SplitN(fs[1], "=", 2)
		if len(kv) != 2 {
			return fmt.Errorf("call f#k ghost x = e")
		}
		e, err := ParseExpr(kv[1])
		if err != nil {
			return err
		}
		fc.CallGhost = append(fc.CallGhost, Clause{Kind: "callghost", Name: strings.TrimSpace(fs[0]) + "|" + strings.TrimSpace(kv[0]), Src: kv[1], E: e, Pos: pos})
	case "after":
		// after NAME[#k] ghost $x = expr
		fs := strings.SplitN(rest, " ghost ", 2)
		if len(fs) != 2 {
			return fmt.Errorf("after f#k ghost $x = e")
		}
		kv := strings.SplitN(fs[1], "=", 2)
		if len(kv) != 2 {
			return fmt.Errorf("after f#k ghost $x = e")
		}
		e, err := ParseExpr(kv[1])
		if err != nil {
			return err
		}
		fc.After = append(fc.After, Clause{Kind: "after", Name: strings.TrimSpace(fs[0]) + "|" + strings.TrimSpace(kv[0]), Src: kv[1], E: e, Pos: pos})
	case "entry":
		if !strings.HasPrefix(rest, "ghost ") {
			return fmt.Errorf("entry ghost $x = e")
		}
		kv := strings.SplitN(rest[6:], "=", 2)
		if len(kv) != 2 {
			return fmt.Errorf("entry ghost $x = e")
		}
		e, err := ParseExpr(kv[1])
		if err != nil {
			return err
		}
		fc.Entry = append(fc.Entry, Clause{Kind: "entry", Name: strings.TrimSpace(kv[0]), Src: kv[1], E: e, Pos: pos})
	case "exit":
		if !strings.HasPrefix(rest, "ghost ") {
			return fmt.Errorf("exit ghost $x = e")
		}
		kv := strings.SplitN(rest[6:], "=", 2)
		if len(kv) != 2 {
			return fmt.Errorf("exit ghost $x = e")
		}
		e, err := ParseExpr(kv[1])
		if err != nil {
			return err
		}
		fc.Exit = append(fc.Exit, Clause{Kind: "exit", Name: strings.TrimSpace(kv[0]), Src: kv[1], E: e, Pos: pos})
	case "props":
		fc.Props = append(fc.Props, strings.Fields(rest)...)
	case "abstract", "mode", "reveal", "use", "panics", "pure", "opt":
		if old, ok := fc.Opts[w]; ok && rest != "" {
			fc.Opts[w] = old + " " + rest
		} else {
			fc.Opts[w] = rest
		}
	default:
		return fmt.Errorf("unknown clause %q", w)
	}
	return nil
}

func isPlainIdent(s string) bool {
	if s == "" {
		return false
	}
	for i := 0; i < len(s); i++ {
		if !isIdentChar(s[i]) && s[i] != '.' {
			return false
		}
	}
	return !(s[0] >= '0' && s[0] <= '9')
}

type cline struct {
	s  string
	no int
}

// expandFamilies implements templated contracts:
//
//	//@ macro kc.BOOL = t.K.T == tBOOL
//	//@ family appendMap_$K_$V for K in BOOL I08, V in BOOL I08
//	//@   requires $(kc.$K) && $(vc.$V)
//
// Each family item is instantiated for every combination of its variables: $K is
// replaced by the value, $(name) by the macro text (after variable substitution).
func expandFamilies(lines []cline, c *Contracts, file string) ([]cline, error) {
	var out []cline
	i := 0
	for i < len(lines) {
		h := strings.TrimSpace(lines[i].s)
		indented := strings.HasPrefix(lines[i].s, "  ") || strings.HasPrefix(lines[i].s, "\t")
		if !indented && strings.HasPrefix(h, "macro ") {
			kv := strings.SplitN(h[6:], "=", 2)
			if len(kv) != 2 {
				return nil, fmt.Errorf("%s:%d: macro NAME = text", file, lines[i].no)
			}
			if c.Macros == nil {
				c.Macros = map[string]string{}
			}
			c.Macros[strings.TrimSpace(kv[0])] = strings.TrimSpace(kv[1])
			i++
			continue
		}
		if !indented && strings.HasPrefix(h, "family ") {
			// header: family NAME(params) (results) for K in a b c, V in d e
			k := strings.Index(h, " for ")
			if k < 0 {
				return nil, fmt.Errorf("%s:%d: family ... for VAR in values", file, lines[i].no)
			}
			tmplHeader := strings.TrimSpace(h[7:k])
			type fvr struct {
				name string
				vals []string
			}
			var vars []fvr
			for _, part := range strings.Split(h[k+5:], ",") {
				fs := strings.Fields(part)
				if len(fs) < 3 || fs[1] != "in" {
					return nil, fmt.Errorf("%s:%d: family variable syntax", file, lines[i].no)
				}
				vars = append(vars, fvr{fs[0], fs[2:]})
			}
			no := lines[i].no
			i++
			var body []cline
			for i < len(lines) && (strings.HasPrefix(lines[i].s, "  ") || strings.HasPrefix(lines[i].s, "\t")) {
				body = append(body, lines[i])
				i++
			}
			// cartesian product
			idx := make([]int, len(vars))
			for {
				sub := func(s string) string {
					for round := 0; round < 4; round++ {
						for vi, v := range vars {
							s = strings.ReplaceAll(s, "$"+v.name, v.vals[idx[vi]])
						}
						for {
							a := strings.Index(s, "$(")
							if a < 0 {
								break
							}
							b := strings.Index(s[a:], ")")
							if b < 0 {
								break
							}
							name := s[a+2 : a+b]
							s = s[:a] + "(" + c.Macros[name] + ")" + s[a+b+1:]
						}
					}
					return s
				}
				out = append(out, cline{" func " + sub(tmplHeader), no})
				for _, bl := range body {
					out = append(out, cline{sub(bl.s), bl.no})
				}
				// next combination
				k := len(vars) - 1
				for k >= 0 {
					idx[k]++
					if idx[k] < len(vars[k].vals) {
						break
					}
					idx[k] = 0
					k--
				}
				if k < 0 {
					break
				}
			}
			continue
		}
		out = append(out, lines[i])
		i++
	}
	// macros may be used in any clause
	for k := range out {
		for round := 0; round < 4 && strings.Contains(out[k].s, "$("); round++ {
			a := strings.Index(out[k].s, "$(")
			b := strings.Index(out[k].s[a:], ")")
			if b < 0 {
				break
			}
			name := out[k].s[a+2 : a+b]
			txt, ok := c.Macros[name]
			if !ok {
				return nil, fmt.Errorf("%s:%d: unknown macro %q", file, out[k].no, name)
			}
			out[k].s = out[k].s[:a] + "(" + txt + ")" + out[k].s[a+b+1:]
		}
	}
	return out, nil
}
