package govc

import (
	"fmt"
	"go/constant"
	"go/types"
	"math/big"
	"sort"
	"strconv"
	"strings"

	"golang.org/x/tools/go/ssa"
)

// Env is the environment in which a contract expression is translated.
type Env struct {
	fv       *FuncVC
	st       *State // current state (heap reads)
	old      *State // state for old(...)
	loopPre  *State
	loopHead *State
	vars     map[string]Term
	bound    []map[string]Term
	callee   bool // contract of a callee evaluated at a call site: caller locals are not visible
	cells    bool // identifiers prefer the current value of local cells (loop invariants, asserts)
	depth    int
	pos      string
}

func (fv *FuncVC) newEnv(st, old *State) *Env {
	e := &Env{fv: fv, st: st, old: old, vars: map[string]Term{}}
	return e
}

func (e *Env) fail(format string, args ...interface{}) {
	e.fv.abort("contract %s: %s", e.pos, fmt.Sprintf(format, args...))
}

func (e *Env) boolExpr(x Expr, pos string) Term {
	e.pos = pos
	t := e.expr(x, pos)
	if t.Sort != SBool {
		e.fail("boolean expression expected, got sort %s (%s)", t.Sort, t.S)
	}
	return t
}

func (e *Env) intExpr(x Expr, pos string) Term {
	e.pos = pos
	t := e.expr(x, pos)
	if t.Sort != SInt {
		e.fail("integer expression expected, got sort %s", t.Sort)
	}
	return t
}

func (e *Env) expr(x Expr, pos string) Term {
	e.pos = pos
	return e.tr(x)
}

// ---------------------------------------------------------------------------

func (e *Env) lookupBound(name string) (Term, bool) {
	for i := len(e.bound) - 1; i >= 0; i-- {
		if t, ok := e.bound[i][name]; ok {
			return t, true
		}
	}
	return Term{}, false
}

func (e *Env) ident(name string) Term {
	fv := e.fv
	if t, ok := e.lookupBound(name); ok {
		return t
	}
	if t, ok := e.vars[name]; ok {
		return t
	}
	switch name {
	case "M":
		return fv.heap(e.st, "M", SInt)
	}
	if strings.HasPrefix(name, "$") {
		return fv.ghostVal(e.st, name)
	}
	if !e.callee {
		if e.cells {
			if t, ok := e.localCell(name); ok {
				return t
			}
		}
		if t, ok := fv.params[name]; ok {
			return t
		}
		if t, ok := e.localCell(name); ok {
			return t
		}
	}
	if v, ok := fv.W.CS.Consts[name]; ok {
		ex, err := ParseExpr(v)
		if err != nil {
			e.fail("const %s: %v", name, err)
		}
		return e.tr(ex)
	}
	if t, ok := e.pkgObject("", name); ok {
		return t
	}
	e.fail("unknown identifier %q", name)
	return Term{}
}

func (e *Env) localCell(name string) (Term, bool) {
	fv := e.fv
	// several cells may share a source name (shadowing, sibling scopes): prefer the
	// one that is live in the current state, latest declaration first.
	var cands []*ssa.Alloc
	if a, ok := fv.localNames[name]; ok {
		cands = append(cands, a)
		for k := 1; ; k++ {
			b, ok := fv.localNames[fmt.Sprintf("%s#%d", name, k)]
			if !ok {
				break
			}
			cands = append(cands, b)
		}
	}
	for i := len(cands) - 1; i >= 0; i-- {
		a := cands[i]
		et := a.Type().Underlying().(*types.Pointer).Elem()
		if fv.escapes[a] {
			addr, ok := fv.vals[a]
			if !ok {
				continue
			}
			v := fv.typedLoad(e.st, addr, et)
			v.T = et
			return v, true
		}
		v, ok := e.st.cells[a]
		if !ok {
			continue
		}
		if v.T == nil {
			v.T = et
		}
		return v, true
	}
	return Term{}, false
}

// pkgObject resolves a package-level object (const, var, func) by name, in the
// named package (import name) or, if pkg == "", in the frugal packages.
func (e *Env) pkgObject(pkg, name string) (Term, bool) {
	fv := e.fv
	var cands []*ssa.Package
	if pkg == "" {
		if fv.Fn != nil && fv.Fn.Pkg != nil {
			cands = append(cands, fv.Fn.Pkg)
		}
		for _, path := range []string{"github.com/cloudwego/frugal/internal/reflect", "github.com/cloudwego/frugal/internal/defs",
			"github.com/cloudwego/frugal/internal/opts", "github.com/cloudwego/frugal"} {
			if p := fv.W.Prog.ByPath[path]; p != nil {
				cands = append(cands, p)
			}
		}
	} else {
		for _, p := range fv.W.Prog.SSA.AllPackages() {
			if p.Pkg.Name() == pkg || fv.W.pkgShort(p.Pkg) == pkg {
				cands = append(cands, p)
			}
		}
	}
	for _, p := range cands {
		obj := p.Pkg.Scope().Lookup(name)
		if obj == nil {
			continue
		}
		switch o := obj.(type) {
		case *types.Const:
			switch o.Val().Kind() {
			case constant.Int:
				bi, _ := new(big.Int).SetString(o.Val().ExactString(), 10)
				t := bigLit(bi)
				t.T = o.Type()
				return t, true
			case constant.Bool:
				if constant.BoolVal(o.Val()) {
					return tTrue, true
				}
				return tFalse, true
			case constant.String:
				return fv.stringLit(constant.StringVal(o.Val())), true
			}
		case *types.Var:
			g, ok := p.Members[name].(*ssa.Global)
			if !ok {
				continue
			}
			addr := fv.globalAddr(g)
			et := g.Type().Underlying().(*types.Pointer).Elem()
			switch under(et).(type) {
			case *types.Struct, *types.Array:
				addr.T = types.NewPointer(et)
				return addr, true // auto-address
			}
			v := fv.typedLoad(e.st, addr, et)
			v.T = et
			return v, true
		case *types.Func:
			f := p.Func(name)
			if f != nil {
				return fv.funcConst(f), true
			}
		}
	}
	return Term{}, false
}

func (e *Env) tr(x Expr) Term {
	fv := e.fv
	switch n := x.(type) {
	case EInt:
		bi, ok := new(big.Int).SetString(n.Val, 0)
		if !ok {
			e.fail("bad integer %q", n.Val)
		}
		return bigLit(bi)
	case EBool:
		if n.Val {
			return tTrue
		}
		return tFalse
	case ENil:
		return Term{S: "0", Sort: SInt}
	case EStr:
		return fv.stringLit(n.Val)
	case EIdent:
		return e.ident(n.Name)
	case EUnary:
		switch n.Op {
		case "!":
			return not(e.tr(n.X))
		case "-":
			return mk(SInt, "-", e.tr(n.X))
		case "*":
			p := e.tr(n.X)
			pt, ok := typeOf(p).Underlying().(*types.Pointer)
			if !ok {
				e.fail("dereference of non-pointer")
			}
			v := fv.typedLoad(e.st, p, pt.Elem())
			v.T = pt.Elem()
			return v
		case "&":
			// &global or &x.f (struct-typed): address
			t := e.addrOf(n.X)
			return t
		}
		e.fail("unary %s unsupported", n.Op)
	case EBinary:
		return e.binary(n)
	case ECond:
		c := e.tr(n.C)
		a, b := e.tr(n.A), e.tr(n.B)
		if a.Sort != b.Sort {
			e.fail("branches of ?: have sorts %s / %s", a.Sort, b.Sort)
		}
		return ite(c, a, b)
	case ESel:
		return e.sel(n)
	case EIndex:
		return e.index(n)
	case ESlice:
		e.fail("slice expression only allowed in modifies clauses")
	case ECall:
		return e.call(n)
	case EQuant:
		return e.quant(n)
	}
	e.fail("unsupported expression %T", x)
	return Term{}
}

func typeOf(t Term) types.Type {
	if t.T == nil {
		return types.Typ[types.Invalid]
	}
	return t.T
}

func (e *Env) addrOf(x Expr) Term {
	fv := e.fv
	switch n := x.(type) {
	case EIdent:
		// global variable
		for _, p := range fv.W.Prog.SSA.AllPackages() {
			if (fv.Fn == nil || p != fv.Fn.Pkg) && !strings.Contains(p.Pkg.Path(), "cloudwego/frugal") {
				continue
			}
			if g, ok := p.Members[n.Name].(*ssa.Global); ok {
				a := fv.globalAddr(g)
				a.T = g.Type()
				return a
			}
		}
		if a, ok := fv.localNames[n.Name]; ok && fv.escapes[a] {
			if v, ok := fv.vals[a]; ok {
				return v
			}
		}
	case ESel:
		base := e.tr(n.X)
		if pt, ok := typeOf(base).Underlying().(*types.Pointer); ok {
			if si := fv.TE.StructInfo(pt.Elem()); si != nil {
				for _, f := range si.Fields {
					if f.GoName == n.Sel {
						r := add(base, intLit(f.Off))
						r.T = types.NewPointer(f.Type)
						return r
					}
				}
			}
		}
	}
	e.fail("cannot take the address of this expression")
	return Term{}
}

func (e *Env) sel(n ESel) Term {
	fv := e.fv
	// package-qualified identifier?
	if id, ok := n.X.(EIdent); ok {
		if _, isVar := e.lookupBound(id.Name); !isVar {
			if _, isVar2 := e.vars[id.Name]; !isVar2 && !e.isLocalOrParam(id.Name) {
				if t, ok := e.pkgObject(id.Name, n.Sel); ok {
					return t
				}
			}
		}
	}
	x := e.tr(n.X)
	switch n.Sel {
	case "ptr":
		switch x.Sort {
		case SSlice:
			return slPtr(x)
		case SStr:
			return stPtr(x)
		}
	case "len":
		switch x.Sort {
		case SSlice:
			return slLen(x)
		case SStr:
			return stLen(x)
		}
	case "cap":
		if x.Sort == SSlice {
			return slCap(x)
		}
	}
	t := typeOf(x)
	if pt, ok := t.Underlying().(*types.Pointer); ok {
		si := fv.TE.StructInfo(pt.Elem())
		if si == nil {
			e.fail("selector .%s on pointer to non-struct %s", n.Sel, t)
		}
		for _, f := range si.Fields {
			if f.GoName == n.Sel {
				switch under(f.Type).(type) {
				case *types.Struct, *types.Array:
					r := add(x, intLit(f.Off))
					r.T = types.NewPointer(f.Type)
					return r
				}
				if fv.isRawElem(pt.Elem()) {
					// layout-overlay structs (const rawtypes) live in raw memory
					v := fv.rawLoad(fv.heap(e.st, "M", SInt), add(x, intLit(f.Off)), f.Type)
					v.T = f.Type
					return v
				}
				v := fv.fieldLoad(e.st, x, pt.Elem(), f)
				v.T = f.Type
				return v
			}
		}
		e.fail("struct %s has no field %s", pt.Elem(), n.Sel)
	}
	if si := fv.TE.StructInfo(t); si != nil && x.Sort == si.Name {
		for _, f := range si.Fields {
			if f.GoName == n.Sel {
				r := mk(f.Sort, f.Name, x)
				r.T = f.Type
				return r
			}
		}
		e.fail("struct %s has no field %s", t, n.Sel)
	}
	e.fail("selector .%s on value of type %v (sort %s)", n.Sel, t, x.Sort)
	return Term{}
}

func (e *Env) isLocalOrParam(name string) bool {
	if e.callee {
		return false
	}
	if _, ok := e.fv.params[name]; ok {
		return true
	}
	_, ok := e.fv.localNames[name]
	return ok
}

func (e *Env) index(n EIndex) Term {
	fv := e.fv
	x := e.tr(n.X)
	i := e.tr(n.I)
	switch {
	case x.Sort == SSlice:
		st, ok := typeOf(x).Underlying().(*types.Slice)
		if !ok {
			e.fail("index into slice of unknown element type")
		}
		esz := fv.TE.Sizeof(st.Elem())
		addr := fv.ix(slPtr(x), i, esz)
		switch under(st.Elem()).(type) {
		case *types.Struct:
			addr.T = types.NewPointer(st.Elem())
			return addr
		}
		v := fv.typedLoad(e.st, addr, st.Elem())
		v.T = st.Elem()
		return v
	case x.Sort == SStr:
		return sel(fv.heap(e.st, "M", SInt), add(stPtr(x), i))
	case x.Sort == SBSeq:
		return mk(SInt, "at", x, i)
	case strings.HasPrefix(x.Sort, "(Array"):
		r := sel(x, i)
		if at, ok := typeOf(x).Underlying().(*types.Array); ok {
			r.T = at.Elem()
		}
		return r
	}
	if pt, ok := typeOf(x).Underlying().(*types.Pointer); ok {
		if at, ok := pt.Elem().Underlying().(*types.Array); ok {
			esz := fv.TE.Sizeof(at.Elem())
			addr := fv.ix(x, i, esz)
			switch under(at.Elem()).(type) {
			case *types.Struct:
				addr.T = types.NewPointer(at.Elem())
				return addr
			}
			v := fv.typedLoad(e.st, addr, at.Elem())
			v.T = at.Elem()
			return v
		}
	}
	e.fail("cannot index value of sort %s", x.Sort)
	return Term{}
}

func (e *Env) binary(n EBinary) Term {
	switch n.Op {
	case "&&":
		return and(e.tr(n.X), e.tr(n.Y))
	case "||":
		return or(e.tr(n.X), e.tr(n.Y))
	case "==>":
		return implies(e.tr(n.X), e.tr(n.Y))
	case "<==>":
		return eq(e.tr(n.X), e.tr(n.Y))
	}
	a, b := e.tr(n.X), e.tr(n.Y)
	switch n.Op {
	case "==", "!=":
		var r Term
		if a.Sort != b.Sort {
			e.fail("comparison of sorts %s and %s (%s vs %s)", a.Sort, b.Sort, a.S, b.S)
		}
		if a.Sort == SStr {
			if s, ok := n.Y.(EStr); ok {
				r = strEqLit(e.fv.heap(e.st, "M", SInt), a, s.Val)
			} else {
				r = e.fv.strEq(e.fv.heap(e.st, "M", SInt), a, b)
			}
		} else {
			r = eq(a, b)
		}
		if n.Op == "!=" {
			return not(r)
		}
		return r
	case "<", "<=", ">", ">=":
		if a.Sort != SInt || b.Sort != SInt {
			e.fail("ordering on non-integers")
		}
		return mk(SBool, n.Op, a, b)
	case "+":
		return add(a, b)
	case "-":
		return sub(a, b)
	case "*":
		return mul(a, b)
	case "/":
		return mk(SInt, "div", a, b)
	case "%":
		return mk(SInt, "mod", a, b)
	case "<<", ">>":
		c, ok := n.Y.(EInt)
		if !ok {
			e.fail("shift by a non-constant in a contract")
		}
		k, _ := strconv.Atoi(c.Val)
		if n.Op == "<<" {
			return mul(a, bigLit(pow2(uint(k))))
		}
		return mk(SInt, "div", a, bigLit(pow2(uint(k))))
	case "&":
		if c, ok := n.Y.(EInt); ok {
			bi, _ := new(big.Int).SetString(c.Val, 0)
			if k, ok := isPow2Minus1(bi); ok {
				return mk(SInt, "mod", a, bigLit(pow2(k)))
			}
		}
		return mk(SInt, "bvand64", a, b)
	case "|":
		return mk(SInt, "bvor64", a, b)
	case "&^":
		return mk(SInt, "bvandnot64", a, b)
	}
	e.fail("binary %s unsupported", n.Op)
	return Term{}
}

// resolveType turns a type string of the contract language into a Go type
// (nil for pure spec sorts) and an SMT sort.
func (fv *FuncVC) resolveType(s string) (types.Type, string) {
	s = strings.TrimSpace(s)
	switch s {
	case "BSeq":
		return nil, SBSeq
	case "Mem":
		return nil, SHeap
	case "Int":
		return nil, SInt
	case "bool", "Bool":
		return types.Typ[types.Bool], SBool
	case "any", "interface{}", "error":
		return types.NewInterfaceType(nil, nil), SInt
	case "string":
		return types.Typ[types.String], SStr
	case "unsafe.Pointer":
		return types.Typ[types.UnsafePointer], SInt
	case "func":
		return nil, SInt
	}
	if strings.HasPrefix(s, "*") {
		t, _ := fv.resolveType(s[1:])
		if t == nil {
			return nil, SInt
		}
		return types.NewPointer(t), SInt
	}
	if strings.HasPrefix(s, "[]") {
		t, _ := fv.resolveType(s[2:])
		if t == nil {
			return nil, SSlice
		}
		return types.NewSlice(t), SSlice
	}
	if strings.HasPrefix(s, "...") {
		t, _ := fv.resolveType(s[3:])
		if t == nil {
			return nil, SSlice
		}
		return types.NewSlice(t), SSlice
	}
	if strings.HasPrefix(s, "map[") || strings.HasPrefix(s, "func(") || strings.HasPrefix(s, "chan ") {
		return nil, SInt
	}
	for _, b := range types.Typ {
		if b.Name() == s {
			return b, fv.TE.SortOf(b)
		}
	}
	if s == "byte" {
		return types.Typ[types.Uint8], SInt
	}
	if s == "rune" {
		return types.Typ[types.Int32], SInt
	}
	pkg, name := "", s
	if i := strings.Index(s, "."); i >= 0 {
		pkg, name = s[:i], s[i+1:]
	}
	var cands []*ssa.Package
	if pkg == "" {
		if fv.Fn != nil && fv.Fn.Pkg != nil {
			cands = append(cands, fv.Fn.Pkg)
		}
		for _, path := range []string{"github.com/cloudwego/frugal/internal/reflect", "github.com/cloudwego/frugal/internal/defs"} {
			if p := fv.W.Prog.ByPath[path]; p != nil {
				cands = append(cands, p)
			}
		}
	} else {
		for _, p := range fv.W.Prog.SSA.AllPackages() {
			if p.Pkg.Name() == pkg {
				cands = append(cands, p)
			}
		}
	}
	for _, p := range cands {
		if obj, ok := p.Pkg.Scope().Lookup(name).(*types.TypeName); ok {
			return obj.Type(), fv.TE.SortOf(obj.Type())
		}
	}
	if pkg == "" {
		for _, p := range fv.W.Prog.SSA.AllPackages() {
			if obj, ok := p.Pkg.Scope().Lookup(name).(*types.TypeName); ok {
				return obj.Type(), fv.TE.SortOf(obj.Type())
			}
		}
	}
	fv.abort("unknown type %q in contract", s)
	return nil, SInt
}

func (fv *FuncVC) sortOfTypeString(s string) string {
	_, so := fv.resolveType(s)
	return so
}

func (e *Env) quant(n EQuant) Term {
	fv := e.fv
	scope := map[string]Term{}
	var decl []string
	var guards []Term
	for _, v := range n.Vars {
		t, sortS := fv.resolveType(v.Type)
		name := v.Name + "!q"
		bt := Term{S: name, Sort: sortS, T: t}
		scope[v.Name] = bt
		decl = append(decl, fmt.Sprintf("(%s %s)", name, sortS))
		if t != nil {
			if _, ok := t.Underlying().(*types.Basic); ok {
				if f := fv.TE.rangeFact(bt, t); f.S != "true" {
					guards = append(guards, f)
				}
			}
		}
	}
	e.bound = append(e.bound, scope)
	body := e.tr(n.Body)
	var pats []string
	for _, tr := range n.Triggers {
		var ps []string
		for _, t := range tr {
			ps = append(ps, e.tr(t).S)
		}
		pats = append(pats, ":pattern ("+strings.Join(ps, " ")+")")
	}
	e.bound = e.bound[:len(e.bound)-1]
	if body.Sort != SBool {
		e.fail("quantifier body must be boolean")
	}
	q := "forall"
	var b Term
	if n.Forall {
		b = implies(and(guards...), body)
	} else {
		q = "exists"
		b = and(append(guards, body)...)
	}
	s := b.S
	if len(pats) > 0 {
		s = "(! " + s + " " + strings.Join(pats, " ") + ")"
	}
	return Term{S: fmt.Sprintf("(%s (%s) %s)", q, strings.Join(decl, " "), s), Sort: SBool}
}

var convTypes = map[string]types.Type{
	"int": types.Typ[types.Int], "int8": types.Typ[types.Int8], "int16": types.Typ[types.Int16],
	"int32": types.Typ[types.Int32], "int64": types.Typ[types.Int64],
	"uint": types.Typ[types.Uint], "uint8": types.Typ[types.Uint8], "uint16": types.Typ[types.Uint16],
	"uint32": types.Typ[types.Uint32], "uint64": types.Typ[types.Uint64], "uintptr": types.Typ[types.Uintptr],
	"byte": types.Typ[types.Uint8],
}

func (e *Env) call(n ECall) Term {
	fv := e.fv
	argN := func(k int) {
		if len(n.Args) != k {
			e.fail("%s expects %d arguments", n.Fun, k)
		}
	}
	switch n.Fun {
	case "old":
		argN(1)
		ne := *e
		ne.st = e.old
		ne.cells = false
		ne.bound = e.bound
		return ne.tr(n.Args[0])
	case "pre": // value at loop entry (before havoc)
		argN(1)
		if e.loopPre == nil {
			e.fail("pre() outside a loop invariant")
		}
		ne := *e
		ne.st = e.loopPre
		return ne.tr(n.Args[0])
	case "head": // value at the head of the current loop iteration
		argN(1)
		if e.loopHead == nil {
			e.fail("head() outside a loop hint/invariant at a back edge")
		}
		ne := *e
		ne.st = e.loopHead
		return ne.tr(n.Args[0])
	case "len":
		argN(1)
		x := e.tr(n.Args[0])
		switch x.Sort {
		case SSlice:
			return slLen(x)
		case SStr:
			return stLen(x)
		case SBSeq:
			return mk(SInt, "slen", x)
		}
		if pt, ok := typeOf(x).Underlying().(*types.Pointer); ok {
			if at, ok := pt.Elem().Underlying().(*types.Array); ok {
				return intLit(at.Len())
			}
		}
		e.fail("len of sort %s", x.Sort)
	case "cap":
		argN(1)
		return slCap(e.tr(n.Args[0]))
	case "ld8", "ld16", "ld32", "ld64":
		m := fv.heap(e.st, "M", SInt)
		if len(n.Args) == 2 {
			m = e.tr(n.Args[0])
			return mk(SInt, n.Fun, m, e.tr(n.Args[1]))
		}
		argN(1)
		return mk(SInt, n.Fun, m, e.tr(n.Args[0]))
	case "lds8", "lds16", "lds32", "lds64":
		m := fv.heap(e.st, "M", SInt)
		w := n.Fun[3:]
		var a Term
		if len(n.Args) == 2 {
			m = e.tr(n.Args[0])
			a = e.tr(n.Args[1])
		} else {
			argN(1)
			a = e.tr(n.Args[0])
		}
		return mk(SInt, "sgn"+w, mk(SInt, "ld"+w, m, a))
	case "sgn8", "sgn16", "sgn32", "sgn64", "isbyte", "ispow2", "tdiv", "trem":
		var args []Term
		for _, a := range n.Args {
			args = append(args, e.tr(a))
		}
		so := SInt
		if n.Fun == "isbyte" || n.Fun == "ispow2" {
			so = SBool
		}
		return mk(so, n.Fun, args...)
	case "snoc":
		argN(2)
		return mk(SBSeq, "snoc", e.tr(n.Args[0]), e.tr(n.Args[1]))
	case "slen":
		argN(1)
		return mk(SInt, "slen", e.tr(n.Args[0]))
	case "at":
		argN(2)
		return mk(SInt, "at", e.tr(n.Args[0]), e.tr(n.Args[1]))
	case "catm":
		argN(4)
		return mk(SBSeq, "catm", e.tr(n.Args[0]), e.tr(n.Args[1]), e.tr(n.Args[2]), e.tr(n.Args[3]))
	case "implementsAppend":
		// synthesized from the contracts: the function stored in t.AppendFunc is one of the
		// functions under contract and its row condition (requires c02_row) holds for t
		argN(1)
		if fv.FC == nil || !fv.revealed("implementsAppend") {
			// kept uninterpreted outside the functions that establish it (the expansion is a
			// large disjunction over every writer under contract)
			fv.declareFun("implApp", []string{SInt}, SBool)
			return mk(SBool, "implApp", e.tr(n.Args[0]))
		}
		return e.implementsAppend(e.tr(n.Args[0]))
	case "store":
		argN(3)
		a := e.tr(n.Args[0])
		return sto(a, e.tr(n.Args[1]), e.tr(n.Args[2]))
	case "allfalse":
		argN(0)
		return Term{S: "((as const (Array Int Bool)) false)", Sort: SHeapB}
	case "allzero":
		argN(0)
		return Term{S: "((as const (Array Int Int)) 0)", Sort: SHeap}
	case "zerobase":
		argN(0)
		return fv.zerobase()
	case "heap":
		argN(1)
		hs, ok := n.Args[0].(EStr)
		if !ok {
			e.fail("heap(\"Type.field\")")
		}
		return e.heapByName(hs.Val)
	case "ix":
		argN(3)
		c, ok := n.Args[2].(EInt)
		if !ok {
			e.fail("ix(base, i, constsize)")
		}
		sz, _ := strconv.Atoi(c.Val)
		return fv.ix(e.tr(n.Args[0]), e.tr(n.Args[1]), int64(sz))
	case "sel":
		argN(2)
		h := e.tr(n.Args[0])
		return sel(h, e.tr(n.Args[1]))
	case "istype", "unbox":
		argN(2)
		s, ok := n.Args[1].(EStr)
		if !ok {
			e.fail("%s(x, \"T\")", n.Fun)
		}
		t, _ := fv.resolveType(s.Val)
		if t == nil {
			e.fail("unknown type %s", s.Val)
		}
		_, unbox, is, sortS := fv.ifaceFuns(t)
		x := e.tr(n.Args[0])
		if n.Fun == "istype" {
			return mk(SBool, is, x)
		}
		r := mk(sortS, unbox, x)
		r.T = t
		return r
	case "box":
		argN(2)
		s, ok := n.Args[1].(EStr)
		if !ok {
			e.fail("box(x, \"T\")")
		}
		t, _ := fv.resolveType(s.Val)
		return fv.box(t, e.tr(n.Args[0]))
	case "fn":
		argN(1)
		s, ok := n.Args[0].(EStr)
		if !ok {
			e.fail("fn(\"key\")")
		}
		f := fv.W.FuncByKey[s.Val]
		if f == nil {
			e.fail("no function %s", s.Val)
		}
		return fv.funcConst(f)
	case "sizeof":
		argN(1)
		s, ok := n.Args[0].(EStr)
		if !ok {
			e.fail("sizeof(\"T\")")
		}
		t, _ := fv.resolveType(s.Val)
		return intLit(fv.TE.Sizeof(t))
	case "min", "max":
		argN(2)
		a, b := e.tr(n.Args[0]), e.tr(n.Args[1])
		if n.Fun == "min" {
			return ite(le(a, b), a, b)
		}
		return ite(le(a, b), b, a)
	case "nmaplen":
		argN(1)
		fv.declareFun("nmaplen", []string{SInt}, SInt)
		return mk(SInt, "nmaplen", e.tr(n.Args[0]))
	case "entryK", "entryV":
		argN(2)
		fv.declareFun("entryK", []string{SInt, SInt}, SInt)
		fv.declareFun("entryV", []string{SInt, SInt}, SInt)
		return mk(SInt, n.Fun, e.tr(n.Args[0]), e.tr(n.Args[1]))
	case "maphas", "mapget":
		argN(2)
		m := e.tr(n.Args[0])
		mt, ok := typeOf(m).Underlying().(*types.Map)
		if !ok {
			e.fail("%s on non-map", n.Fun)
		}
		has, get, _, vs := fv.mapFuns(mt)
		k := e.tr(n.Args[1])
		ver := fv.mapsVersion(e.st)
		if n.Fun == "maphas" {
			return mk(SBool, has, ver, m, k)
		}
		r := mk(vs, get, ver, m, k)
		r.T = mt.Elem()
		return r
	case "same":
		// structural identity (same header), as opposed to == on strings which compares contents
		argN(2)
		a, b := e.tr(n.Args[0]), e.tr(n.Args[1])
		if a.Sort != b.Sort {
			e.fail("same(): sorts %s / %s", a.Sort, b.Sort)
		}
		return eq(a, b)
	case "streqm":
		// streqm(m, p0, n0, p1, n1): byte-wise equality of two strings given by (ptr, len) under memory m
		argN(5)
		m := e.tr(n.Args[0])
		return fv.strEq(m, mkStr(e.tr(n.Args[1]), e.tr(n.Args[2])), mkStr(e.tr(n.Args[3]), e.tr(n.Args[4])))
	case "streq":
		argN(2)
		return fv.strEq(fv.heap(e.st, "M", SInt), e.tr(n.Args[0]), e.tr(n.Args[1]))
	case "feq":
		argN(2)
		return mk(SBool, "feq", e.tr(n.Args[0]), e.tr(n.Args[1]))
	case "wrap":
		// wrap(x, "uint32")
		argN(2)
		s, _ := n.Args[1].(EStr)
		t := convTypes[s.Val]
		if t == nil {
			e.fail("wrap(x, \"inttype\")")
		}
		return wrapTo(e.tr(n.Args[0]), t)
	}
	if strings.HasPrefix(n.Fun, "bv") && len(n.Fun) > 4 {
		fv.usedSpecs[n.Fun] = true
		var args []Term
		for _, a := range n.Args {
			args = append(args, e.tr(a))
		}
		return mk(SInt, n.Fun, args...)
	}
	if t, ok := convTypes[n.Fun]; ok {
		argN(1)
		r := wrapTo(e.tr(n.Args[0]), t)
		r.T = t
		return r
	}
	if sf, ok := fv.W.CS.Specs[n.Fun]; ok {
		return e.specCall(sf, n)
	}
	e.fail("unknown function %q in contract", n.Fun)
	return Term{}
}

func (e *Env) specCall(sf *SpecFunc, n ECall) Term {
	fv := e.fv
	if len(n.Args) != len(sf.Params) {
		e.fail("spec %s expects %d arguments, got %d", sf.Name, len(sf.Params), len(n.Args))
	}
	var args []Term
	for i, a := range n.Args {
		t := e.tr(a)
		pt, ps := fv.resolveType(sf.Params[i].Type)
		if t.Sort != ps {
			e.fail("spec %s: argument %d has sort %s, want %s", sf.Name, i, t.Sort, ps)
		}
		if pt != nil {
			t.T = pt
		}
		args = append(args, t)
	}
	rt, rs := fv.resolveType(sf.Result)
	if sf.Rec {
		name := "sp." + sf.Name
		fv.usedSpecs[sf.Name] = true
		if !fv.declared[name] {
			fv.declared[name] = true
			// define-fun-rec with the body translated over formal parameter symbols;
			// a rec spec function may only depend on its parameters (heaps are passed explicitly).
			ne := &Env{fv: fv, st: e.st, old: e.old, vars: map[string]Term{}, callee: true, depth: e.depth + 1, pos: sf.Pos}
			var ps []string
			for _, p := range sf.Params {
				pt, ps2 := fv.resolveType(p.Type)
				sym := p.Name + "!r"
				ne.vars[p.Name] = Term{S: sym, Sort: ps2, T: pt}
				ps = append(ps, fmt.Sprintf("(%s %s)", sym, ps2))
			}
			var sorts, syms []string
			for _, p := range sf.Params {
				_, ps2 := fv.resolveType(p.Type)
				sorts = append(sorts, ps2)
				syms = append(syms, p.Name+"!r")
			}
			// uninterpreted function + one-step unfolding axiom triggered on applications
			// (define-fun-rec is avoided: z3 5.1 was observed to answer unsat spuriously
			// on recursive definitions combined with quantified lemmas over arrays).
			fv.decls = append(fv.decls, fmt.Sprintf("(declare-fun %s (%s) %s)", name, strings.Join(sorts, " "), rs))
			body := ne.tr(sf.Body)
			if body.Sort != rs {
				e.fail("spec rec %s: body has sort %s, declared %s", sf.Name, body.Sort, rs)
			}
			app := "(" + name + " " + strings.Join(syms, " ") + ")"
			fv.decls = append(fv.decls, fmt.Sprintf("(assert (forall (%s) (! (= %s %s) :pattern (%s))))", strings.Join(ps, " "), app, body.S, app))
		}
		r := mk(rs, name, args...)
		r.T = rt
		return r
	}
	if sf.UF || sf.Opaque || sf.Body == nil {
		var sorts []string
		var all []Term
		for _, r := range sf.Reads {
			h := e.heapByName(r)
			sorts = append(sorts, h.Sort)
			all = append(all, h)
		}
		for _, a := range args {
			sorts = append(sorts, a.Sort)
		}
		all = append(all, args...)
		name := "sp." + sf.Name
		fv.declareFun(name, sorts, rs)
		fv.usedSpecs[sf.Name] = true
		var r Term
		if len(all) == 0 {
			r = Term{S: name, Sort: rs}
		} else {
			r = mk(rs, name, all...)
		}
		r.T = rt
		if sf.Opaque && sf.Body != nil && fv.revealed(sf.Name) {
			fv.revealAxiom(sf, name, sorts, rs)
		}
		return r
	}
	if e.depth > 40 {
		e.fail("spec function %s: expansion too deep (recursive?)", sf.Name)
	}
	ne := &Env{fv: fv, st: e.st, old: e.old, vars: map[string]Term{}, callee: true, depth: e.depth + 1, pos: sf.Pos}
	for i, p := range sf.Params {
		ne.vars[p.Name] = args[i]
	}
	r := ne.tr(sf.Body)
	if r.Sort != rs {
		e.fail("spec %s: body has sort %s, declared %s", sf.Name, r.Sort, rs)
	}
	if rt != nil {
		r.T = rt
	}
	return r
}

func (fv *FuncVC) revealed(name string) bool {
	for _, r := range strings.FieldsFunc(fv.FC.Opts["reveal"], func(r rune) bool { return r == ',' || r == ' ' }) {
		if r == name {
			return true
		}
	}
	return false
}

// heapByName returns the current version of a heap given its contract-level
// name: "M", "tType.V" (field heap), "*int"/"[]int" element heap ("P.int").
func (e *Env) heapByName(name string) Term {
	fv := e.fv
	if name == "M" {
		return fv.heap(e.st, "M", SInt)
	}
	if strings.HasPrefix(name, "P.") || strings.HasPrefix(name, "H.") {
		if so, ok := fv.heapSort[name]; ok {
			return fv.heap(e.st, name, elemSortOf(so))
		}
		return fv.heap(e.st, name, SInt)
	}
	if strings.HasPrefix(name, "*") {
		if t, _ := fv.resolveType(name[1:]); t != nil {
			return fv.heap(e.st, fv.scalarHeapName(t), fv.TE.SortOf(t))
		}
	}
	if i := strings.LastIndex(name, "."); i > 0 {
		t, _ := fv.resolveType(name[:i])
		if si := fv.TE.StructInfo(t); si != nil {
			for _, f := range si.Fields {
				if f.GoName == name[i+1:] {
					return fv.heap(e.st, fv.fieldHeapName(t, f.GoName), f.Sort)
				}
			}
		}
	}
	if strings.HasPrefix(name, "elem:") {
		t, _ := fv.resolveType(name[5:])
		return fv.heap(e.st, fv.scalarHeapName(t), fv.TE.SortOf(t))
	}
	e.fail("unknown heap %q", name)
	return Term{}
}

// ---------------------------------------------------------------------------
// modifies clauses

type modTarget struct {
	heap   string
	addr   Term // single address (if !rng && !whole)
	lo, hi Term // address range [lo,hi)
	rng    bool
	whole  bool
	stride int64 // 0: contiguous; else addresses lo + k*stride (k>=0) below hi
}

// modTargets resolves one modifies expression to heap targets.
func (e *Env) modTargets(x Expr) []modTarget {
	fv := e.fv
	switch n := x.(type) {
	case EIdent:
		if strings.HasPrefix(n.Name, "$") {
			return []modTarget{{heap: "ghost:" + n.Name, whole: true}}
		}
		if n.Name == "M" {
			return []modTarget{{heap: "M", whole: true}}
		}
	case EStr:
		return []modTarget{{heap: n.Val, whole: true}}
	case ESel:
		base := e.tr(n.X)
		pt, ok := typeOf(base).Underlying().(*types.Pointer)
		if !ok {
			e.fail("modifies %s: base is not a pointer", n.Sel)
		}
		si := fv.TE.StructInfo(pt.Elem())
		if si == nil {
			e.fail("modifies: not a struct")
		}
		for _, f := range si.Fields {
			if f.GoName == n.Sel {
				return e.fieldTargets(pt.Elem(), f, base)
			}
		}
		e.fail("modifies: no field %s", n.Sel)
	case EUnary:
		if n.Op == "*" {
			p := e.tr(n.X)
			pt, ok := typeOf(p).Underlying().(*types.Pointer)
			if !ok {
				e.fail("modifies *p: p is not a pointer")
			}
			return e.typeTargets(pt.Elem(), p)
		}
	case ECall:
		if n.Fun == "sel" && len(n.Args) == 2 {
			if hs, ok := n.Args[0].(EStr); ok {
				h := e.heapByName(hs.Val)
				_ = h
				name := hs.Val
				if !strings.HasPrefix(name, "P.") && !strings.HasPrefix(name, "H.") && name != "M" {
					e.fail("sel(\"P.x\"|\"H.T.f\", addr) expected")
				}
				return []modTarget{{heap: name, addr: e.tr(n.Args[1])}}
			}
		}
		if n.Fun == "fields" && len(n.Args) == 1 {
			p := e.tr(n.Args[0])
			pt, ok := typeOf(p).Underlying().(*types.Pointer)
			if !ok {
				e.fail("fields(p): p is not a pointer")
			}
			return e.typeTargets(pt.Elem(), p)
		}
	case EIndex:
		// x[i] single element
		base := e.tr(n.X)
		i := e.tr(n.I)
		if base.Sort == SSlice {
			st := typeOf(base).Underlying().(*types.Slice)
			esz := fv.TE.Sizeof(st.Elem())
			return e.typeTargets(st.Elem(), fv.ix(slPtr(base), i, esz))
		}
	case ESlice:
		if id, ok := n.X.(EIdent); ok && id.Name == "M" {
			return []modTarget{{heap: "M", rng: true, lo: e.tr(n.Lo), hi: e.tr(n.Hi)}}
		}
		base := e.tr(n.X)
		if base.Sort == SSlice {
			st, ok := typeOf(base).Underlying().(*types.Slice)
			if !ok {
				e.fail("modifies x[a:b]: unknown element type")
			}
			esz := fv.TE.Sizeof(st.Elem())
			lo := intLit(0)
			if n.Lo != nil {
				lo = e.tr(n.Lo)
			}
			hi := slCap(base)
			if n.Hi != nil {
				hi = e.tr(n.Hi)
			}
			var out []modTarget
			for _, h := range fv.heapsOfType(st.Elem()) {
				if _, ok := fv.heapSort[h]; !ok {
					e.touchHeapsOfType(st.Elem())
				}
				out = append(out, modTarget{heap: h, rng: true, lo: add(slPtr(base), mul(intLit(esz), lo)), hi: add(slPtr(base), mul(intLit(esz), hi))})
			}
			return out
		}
	}
	e.fail("unsupported modifies target")
	return nil
}

func (e *Env) touchHeapsOfType(t types.Type) {
	fv := e.fv
	switch under(t).(type) {
	case *types.Struct:
		si := fv.TE.StructInfo(t)
		for _, f := range si.Fields {
			switch under(f.Type).(type) {
			case *types.Struct:
				e.touchHeapsOfType(f.Type)
			case *types.Array:
			default:
				fv.heap(e.st, fv.fieldHeapName(t, f.GoName), f.Sort)
			}
		}
	case *types.Array:
	default:
		fv.heap(e.st, fv.scalarHeapName(t), fv.TE.SortOf(t))
	}
}

func (e *Env) fieldTargets(st types.Type, f structField, base Term) []modTarget {
	fv := e.fv
	switch u := under(f.Type).(type) {
	case *types.Struct:
		return e.typeTargets(f.Type, add(base, intLit(f.Off)))
	case *types.Array:
		esz := fv.TE.Sizeof(u.Elem())
		lo := add(base, intLit(f.Off))
		e.touchHeapsOfType(u.Elem())
		var out []modTarget
		for _, h := range fv.heapsOfType(u.Elem()) {
			out = append(out, modTarget{heap: h, rng: true, lo: lo, hi: add(lo, intLit(esz*u.Len()))})
		}
		return out
	}
	hn := fv.fieldHeapName(st, f.GoName)
	fv.heap(e.st, hn, f.Sort)
	return []modTarget{{heap: hn, addr: base}}
}

func (e *Env) typeTargets(t types.Type, addr Term) []modTarget {
	fv := e.fv
	switch under(t).(type) {
	case *types.Struct:
		si := fv.TE.StructInfo(t)
		var out []modTarget
		for _, f := range si.Fields {
			out = append(out, e.fieldTargets(t, f, addr)...)
		}
		return out
	}
	hn := fv.scalarHeapName(t)
	fv.heap(e.st, hn, fv.TE.SortOf(t))
	sz := fv.TE.Sizeof(t)
	if hn == "M" && sz > 1 {
		return []modTarget{{heap: hn, rng: true, lo: addr, hi: add(addr, intLit(sz))}}
	}
	return []modTarget{{heap: hn, addr: addr}}
}

// clausesByHeap lists, for every heap touched by the modifies clauses, the
// clauses that touch it (order = first appearance).
func (fv *FuncVC) clausesByHeap(env *Env, clauses []Clause) (map[string][]Clause, []string) {
	by := map[string][]Clause{}
	var order []string
	for _, c := range clauses {
		env.pos = c.Pos
		seen := map[string]bool{}
		for _, t := range env.modTargets(c.E) {
			if seen[t.heap] {
				continue
			}
			seen[t.heap] = true
			if _, ok := by[t.heap]; !ok {
				order = append(order, t.heap)
			}
			by[t.heap] = append(by[t.heap], c)
		}
	}
	return by, order
}

func (fv *FuncVC) dummyEnv(fc *FuncContract) *Env {
	env := fv.newEnv(fv.cur, fv.cur)
	env.callee = true
	env.pos = fc.Pos
	var formals []Param
	if fc.Recv != nil {
		formals = append(formals, *fc.Recv)
	}
	formals = append(formals, fc.Params...)
	formals = append(formals, fc.Results...)
	formals = append(formals, fc.Ghost...)
	for _, p := range formals {
		t, so := fv.resolveType(p.Type)
		env.vars[p.Name] = Term{S: "dummy." + p.Name, Sort: so, T: t}
	}
	return env
}

// frameAxiom: nh agrees with old outside the targets of the given modifies clauses (for heap hn).
func (fv *FuncVC) frameAxiom(env *Env, hn string, old, nh Term, clauses []Clause) Term {
	var conds []string
	if !strings.HasPrefix(hn, "ghost:") {
		// memory allocated after the frame's reference point is never part of the caller's footprint
		conds = append(conds, fmt.Sprintf("(< a!f %s)", fv.ghostVal(env.st, "$brk").S))
	}
	for _, c := range clauses {
		env.pos = c.Pos
		for _, t := range env.modTargets(c.E) {
			if t.heap != hn {
				continue
			}
			switch {
			case t.whole:
				return tTrue
			case t.rng:
				conds = append(conds, fmt.Sprintf("(or (< a!f %s) (>= a!f %s))", t.lo.S, t.hi.S))
			default:
				conds = append(conds, fmt.Sprintf("(not (= a!f %s))", t.addr.S))
			}
		}
	}
	g := conds[0]
	if len(conds) > 1 {
		g = "(and " + strings.Join(conds, " ") + ")"
	}
	return Term{S: fmt.Sprintf("(forall ((a!f Int)) (! (=> %s (= (select %s a!f) (select %s a!f))) :pattern ((select %s a!f))))", g, nh.S, old.S, nh.S), Sort: SBool}
}

// revealAxiom adds (once) the definitional axiom of an opaque spec function:
// forall heaps, params :: f(heaps, params) == body, triggered on applications.
func (fv *FuncVC) revealAxiom(sf *SpecFunc, name string, sorts []string, rs string) {
	if fv.declared["reveal:"+sf.Name] {
		return
	}
	fv.declared["reveal:"+sf.Name] = true
	st := newState()
	var decl, syms []string
	// heaps read by the function become bound array variables
	tmp := fv.newEnv(fv.cur, fv.cur)
	for i, r := range sf.Reads {
		h := tmp.heapByName(r)
		sym := fmt.Sprintf("h%d!o", i)
		hn := fv.heapKeyOf(r)
		st.heaps[hn] = Term{S: sym, Sort: h.Sort}
		decl = append(decl, fmt.Sprintf("(%s %s)", sym, h.Sort))
		syms = append(syms, sym)
	}
	ne := &Env{fv: fv, st: st, old: st, vars: map[string]Term{}, callee: true, depth: 1, pos: sf.Pos}
	for _, p := range sf.Params {
		pt, ps := fv.resolveType(p.Type)
		sym := p.Name + "!o"
		ne.vars[p.Name] = Term{S: sym, Sort: ps, T: pt}
		decl = append(decl, fmt.Sprintf("(%s %s)", sym, ps))
		syms = append(syms, sym)
	}
	fv.strictState = st
	body := ne.tr(sf.Body)
	fv.strictState = nil
	app := "(" + name + " " + strings.Join(syms, " ") + ")"
	fv.axioms = append(fv.axioms, fmt.Sprintf("(forall (%s) (! (= %s %s) :pattern (%s)))", strings.Join(decl, " "), app, body.S, app))
}

// heapKeyOf maps a contract-level heap name to the internal heap key.
func (fv *FuncVC) heapKeyOf(name string) string {
	if name == "M" || strings.HasPrefix(name, "P.") || strings.HasPrefix(name, "H.") {
		return name
	}
	if strings.HasPrefix(name, "elem:") {
		t, _ := fv.resolveType(name[5:])
		return fv.scalarHeapName(t)
	}
	if strings.HasPrefix(name, "*") {
		if t, _ := fv.resolveType(name[1:]); t != nil {
			return fv.scalarHeapName(t)
		}
	}
	if i := strings.LastIndex(name, "."); i > 0 {
		t, _ := fv.resolveType(name[:i])
		return fv.fieldHeapName(t, name[i+1:])
	}
	return name
}

func (e *Env) implementsAppend(t Term) Term {
	fv := e.fv
	tT, _ := fv.resolveType("*tType")
	t.T = tT
	si := fv.TE.StructInfo(tT.(*types.Pointer).Elem())
	var af Term
	for _, f := range si.Fields {
		if f.GoName == "AppendFunc" {
			af = fv.fieldLoad(e.st, t, tT.(*types.Pointer).Elem(), f)
		}
	}
	var keys []string
	for k, fc := range fv.W.CS.Funcs {
		if fc.Trusted || fc.Dyn || len(fc.Params) != 3 {
			continue
		}
		has := false
		for _, c := range fc.Requires {
			if c.Name == "c02_row" {
				has = true
			}
		}
		if has {
			keys = append(keys, k)
		}
	}
	sort.Strings(keys)
	var conj, any []Term
	for _, k := range keys {
		fc := fv.W.CS.Funcs[k]
		fn := fv.W.FuncByKey[k]
		if fn == nil {
			continue
		}
		fcst := fv.funcConst(fn)
		ne := &Env{fv: fv, st: e.st, old: e.old, vars: map[string]Term{}, callee: true, depth: e.depth + 1, pos: fc.Pos}
		ne.vars[fc.Params[0].Name] = t
		var rows []Term
		for _, c := range fc.Requires {
			if c.Name == "c02_row" {
				rows = append(rows, ne.boolExpr(c.E, c.Pos))
			}
		}
		conj = append(conj, implies(eq(af, fcst), and(rows...)))
		any = append(any, eq(af, fcst))
	}
	return and(and(conj...), or(any...))
}
