package govc

import (
	"bytes"
	"context"
	"fmt"
	"golang.org/x/tools/go/ssa"
	"os"
	"os/exec"
	"path/filepath"
	"regexp"
	"strings"
	"sync"
	"time"
)

const bseqPrelude = `
(declare-sort BSeq 0)
(declare-fun snoc (BSeq Int) BSeq)
(declare-fun slen (BSeq) Int)
(declare-fun at (BSeq Int) Int)
(declare-fun catm (BSeq (Array Int Int) Int Int) BSeq)
(declare-fun bempty () BSeq)
(assert (= (slen bempty) 0))
(assert (forall ((s BSeq)) (! (>= (slen s) 0) :pattern ((slen s)))))
(assert (forall ((s BSeq) (x Int)) (! (and (= (slen (snoc s x)) (+ (slen s) 1)) (= (at (snoc s x) (slen s)) x)) :pattern ((snoc s x)))))
(assert (forall ((s BSeq) (x Int) (i Int)) (! (=> (and (<= 0 i) (< i (slen s))) (= (at (snoc s x) i) (at s i))) :pattern ((at (snoc s x) i)))))
(assert (forall ((s BSeq) (m (Array Int Int)) (p Int) (n Int)) (! (=> (>= n 0) (= (slen (catm s m p n)) (+ (slen s) n))) :pattern ((catm s m p n)))))
(assert (forall ((s BSeq) (m (Array Int Int)) (p Int) (n Int) (i Int)) (! (=> (and (<= 0 i) (< i (slen s))) (= (at (catm s m p n) i) (at s i))) :pattern ((at (catm s m p n) i)))))
(assert (forall ((s BSeq) (m (Array Int Int)) (p Int) (n Int) (i Int)) (! (=> (and (<= (slen s) i) (< i (+ (slen s) n))) (= (at (catm s m p n) i) (select m (+ p (- i (slen s)))))) :pattern ((at (catm s m p n) i)))))
(assert (forall ((s BSeq) (m (Array Int Int)) (p Int)) (! (= (catm s m p 0) s) :pattern ((catm s m p 0)))))
`

// Query assembles the SMT-LIB text of an obligation.
func (o *Obligation) Query(models bool) string {
	if o.Raw != "" || o.Func == nil {
		return o.Raw
	}
	fv := o.Func
	var sb strings.Builder
	if models {
		sb.WriteString("(set-option :produce-models true)\n")
	}
	sb.WriteString("(set-logic ALL)\n")
	sb.WriteString(fv.TE.Decls())
	sb.WriteString(rawPrelude)
	for _, ax := range memAxioms() {
		sb.WriteString("(assert " + ax + ")\n")
	}
	sb.WriteString(arithPrelude)
	if fv.usesBSeq() || strings.Contains(o.Cond.S, "BSeq") || strings.Contains(o.Cond.S, "(slen ") || strings.Contains(o.Cond.S, "(snoc ") {
		sb.WriteString(bseqPrelude)
	}
	for _, d := range fv.decls {
		if d == "" {
			continue
		}
		sb.WriteString(d)
		sb.WriteString("\n")
	}
	// declarations introduced later but referenced by nothing visible are skipped;
	// declarations referenced by visible asserts were made before them.
	for _, ax := range fv.axioms {
		sb.WriteString("(assert " + ax + ")\n")
	}
	var anc map[int]bool
	if o.Block != nil && !NoSlicing {
		anc = fv.ancestors(o.Block)
	}
	otag := ""
	if m := propTag.FindStringSubmatch(o.Name[strings.Index(o.Name, "/")+1:]); m != nil {
		otag = m[1]
	}
	for i, a := range fv.asserts[:o.NPre] {
		if t, ok := fv.assertTag[i]; ok && otag != "" && t != otag {
			continue
		}
		// cone of influence: facts emitted in blocks that cannot precede the obligation's
		// block are irrelevant (dropping assumptions is always sound)
		if anc != nil && i < len(fv.assertBlk) && fv.assertBlk[i] >= 0 && !anc[fv.assertBlk[i]] {
			continue
		}
		sb.WriteString("(assert " + a + ")\n")
	}
	sb.WriteString("(assert " + o.Reach.S + ")\n")
	sb.WriteString("(assert (not " + o.Cond.S + "))\n")
	sb.WriteString("(check-sat)\n")
	return sb.String()
}

func (fv *FuncVC) usesBSeq() bool {
	if fv.abstractBSeq {
		return true
	}
	for _, d := range fv.decls {
		if strings.Contains(d, "BSeq") {
			return true
		}
	}
	for _, a := range fv.axioms {
		if strings.Contains(a, "snoc") || strings.Contains(a, "slen") || strings.Contains(a, "catm") {
			return true
		}
	}
	return false
}

// Result of one obligation.
type Result struct {
	Obl    *Obligation
	Status string // unsat | sat | unknown | timeout | error
	Solver string
	Time   float64
	Output string
	Model  map[string]string
	Tried  []string
}

type solverSpec struct {
	Name string
	Args func(file string, timeoutMs int) []string
}

var solvers = []solverSpec{
	{"z3-new", func(f string, t int) []string { return []string{"z3-new", fmt.Sprintf("-t:%d", t), f} }},
	{"z3", func(f string, t int) []string { return []string{"z3", fmt.Sprintf("-t:%d", t), f} }},
	{"cvc5", func(f string, t int) []string {
		return []string{"cvc5", "--incremental", fmt.Sprintf("--tlimit-per=%d", t), f}
	}},
}

// NoSlicing disables the cone-of-influence pruning of queries.
var NoSlicing = false

// CrossCheckMs bounds the cross-checking solvers of the thorough tier once one solver has decided.
var CrossCheckMs = 15000

// ExtraSeeds adds z3 runs under other random seeds to the race (used for retries).
var ExtraSeeds = false

// KeepQueries keeps discharged query files too.
var KeepQueries = false

// OutDir is where queries and replays are written.
var OutDir = "/verif/out"

func runSolver(ctx context.Context, sp solverSpec, file string, timeoutMs int) (status string, out string, dur float64) {
	args := sp.Args(file, timeoutMs)
	cctx, cancel := context.WithTimeout(ctx, time.Duration(timeoutMs+2000)*time.Millisecond)
	defer cancel()
	cmd := exec.CommandContext(cctx, args[0], args[1:]...)
	var buf bytes.Buffer
	cmd.Stdout = &buf
	cmd.Stderr = &buf
	t0 := time.Now()
	_ = cmd.Run()
	dur = time.Since(t0).Seconds()
	out = buf.String()
	first := strings.TrimSpace(out)
	if i := strings.Index(first, "\n"); i >= 0 {
		first = first[:i]
	}
	switch first {
	case "unsat", "sat", "unknown":
		return first, out, dur
	case "timeout":
		return "timeout", out, dur
	}
	if cctx.Err() != nil {
		return "timeout", out, dur
	}
	if strings.Contains(out, "unknown") && !strings.Contains(out, "error") {
		return "unknown", out, dur
	}
	return "error", out, dur
}

func safeFile(name string) string {
	r := strings.NewReplacer("/", "_", "(", "", ")", "", "*", "p", " ", "_", ":", "-", "#", "-", "$", "_", "\"", "", "[", "_", "]", "_", "<", "_", ">", "_", ",", "_")
	s := r.Replace(name)
	if len(s) > 180 {
		s = s[:180]
	}
	return s
}

// Discharge runs the solver race on one obligation.
func Discharge(o *Obligation, timeoutMs int, all bool) *Result {
	if o.Trivial {
		be := "simplifier"
		if o.Kind == "synt" {
			be = "ssa-scan"
		}
		return &Result{Obl: o, Status: "unsat", Solver: be, Tried: []string{be + ":holds"}}
	}
	if o.Kind == "synt" {
		return &Result{Obl: o, Status: "sat", Solver: "ssa-scan", Tried: []string{"ssa-scan:violated"}, Output: o.Raw}
	}
	dir := filepath.Join(OutDir, "q")
	os.MkdirAll(dir, 0o755)
	file := filepath.Join(dir, safeFile(o.Name)+".smt2")
	q := o.Query(false)
	os.WriteFile(file, []byte(q), 0o644)
	res := &Result{Obl: o, Status: "unknown"}
	ctx, cancel := context.WithCancel(context.Background())
	defer cancel()
	// stage 1: fast try with z3-new alone
	quick := timeoutMs
	if quick > 4000 {
		quick = 4000
	}
	t0 := time.Now()
	st, out, _ := runSolver(ctx, solvers[0], file, quick)
	res.Tried = append(res.Tried, fmt.Sprintf("%s:%s", solvers[0].Name, st))
	if st == "unsat" || st == "sat" {
		res.Status, res.Solver, res.Output = st, solvers[0].Name, out
		if !all {
			res.Time = time.Since(t0).Seconds()
			if st == "unsat" && !KeepQueries {
				os.Remove(file)
			}
			return res
		}
	}
	if st == "error" {
		res.Status, res.Solver, res.Output = "error", solvers[0].Name, out
	}
	// stage 2: race everything
	type r struct {
		name, st, out string
	}
	ch := make(chan r, len(solvers))
	var wg sync.WaitGroup
	race := solvers
	if ExtraSeeds {
		// second chance: the same query under other random seeds (instantiation order matters
		// for quantified goals; a proof found under any seed is a proof)
		for _, seed := range []int{7, 23, 101} {
			seed := seed
			race = append(race, solverSpec{fmt.Sprintf("z3-new/seed%d", seed), func(f string, t int) []string {
				return []string{"z3-new", fmt.Sprintf("-t:%d", t), fmt.Sprintf("smt.random_seed=%d", seed), fmt.Sprintf("sat.random_seed=%d", seed), f}
			}})
		}
	}
	ch = make(chan r, len(race))
	for _, sp := range race {
		if all && sp.Name == solvers[0].Name && (st == "unsat" || st == "sat") {
			continue
		}
		wg.Add(1)
		go func(sp solverSpec) {
			defer wg.Done()
			tmo := timeoutMs
			if all && (st == "unsat" || st == "sat") && tmo > CrossCheckMs {
				// the first solver has decided; the others only cross-check (a disagreement is
				// reported, silence is not) and get a shorter limit
				tmo = CrossCheckMs
			}
			s, o2, _ := runSolver(ctx, sp, file, tmo)
			ch <- r{sp.Name, s, o2}
		}(sp)
	}
	go func() { wg.Wait(); close(ch) }()
	for x := range ch {
		res.Tried = append(res.Tried, fmt.Sprintf("%s:%s", x.name, x.st))
		if x.st == "unsat" || x.st == "sat" {
			if res.Status == "unsat" || res.Status == "sat" {
				if res.Status != x.st {
					res.Status = "disagree"
					res.Output += "\n" + x.name + ": " + x.out
				}
				continue
			}
			res.Status, res.Solver, res.Output = x.st, x.name, x.out
			if !all {
				cancel()
			} else {
				// thorough tier: give the remaining solvers a bounded time to contradict
				time.AfterFunc(time.Duration(CrossCheckMs)*time.Millisecond, cancel)
			}
		} else if res.Status == "unknown" || res.Status == "error" {
			if x.st == "timeout" || x.st == "unknown" {
				if res.Status == "error" || res.Output == "" {
					res.Status, res.Solver, res.Output = x.st, x.name, x.out
				}
			} else if res.Output == "" {
				res.Output = x.out
			}
		}
	}
	res.Time = time.Since(t0).Seconds()
	if res.Status != "unsat" && res.Status != "sat" && res.Status != "disagree" && !o.noSplit {
		// case split over the incoming edges of the nearest merge block: solvers instantiate
		// quantified facts poorly through the equalities a merge introduces; with one edge
		// asserted the merged names collapse to that edge's values. Sound: the block is reached
		// through exactly one of its incoming edges.
		if subs := o.splitByEdges(); len(subs) > 1 {
			allOK := true
			for k, so := range subs {
				sr := Discharge(so, timeoutMs, false)
				res.Tried = append(res.Tried, fmt.Sprintf("edge%d:%s", k, sr.Status))
				if sr.Status != "unsat" {
					allOK = false
					break
				}
			}
			if allOK {
				res.Status, res.Solver = "unsat", "z3-new+edge-split"
			}
			res.Time = time.Since(t0).Seconds()
		}
	}
	if res.Status == "unsat" && !all && !KeepQueries {
		// keep disk usage low
		os.Remove(file)
	}
	return res
}

// splitByEdges returns one copy of the obligation per incoming edge of the nearest merge block
// at or above the obligation's block (nil if there is none).
func (o *Obligation) splitByEdges() []*Obligation {
	fv := o.Func
	if fv == nil || o.Block == nil || fv.inEdges == nil {
		return nil
	}
	b := o.Block
	for {
		if es := fv.inEdges[b.Index]; len(es) > 1 {
			var out []*Obligation
			for k, e := range es {
				c := *o
				c.Name = fmt.Sprintf("%s@edge%d", o.Name, k)
				c.Reach = and(o.Reach, e)
				c.noSplit = true
				out = append(out, &c)
			}
			return out
		}
		var preds []*ssa.BasicBlock
		for _, p := range b.Preds {
			if !fv.isBackEdge(p, b) {
				preds = append(preds, p)
			}
		}
		if len(preds) != 1 {
			return nil
		}
		b = preds[0]
	}
}

var modelLine = regexp.MustCompile(`\(define-fun ([^ ]+) \(\) (\S+)\s+([^\n]+)\)`)

// GetModel asks z3-new for a model of a satisfiable obligation.
func GetModel(o *Obligation, timeoutMs int) (map[string]string, string) {
	dir := filepath.Join(OutDir, "q")
	os.MkdirAll(dir, 0o755)
	file := filepath.Join(dir, safeFile(o.Name)+".model.smt2")
	q := o.Query(true) + "(get-model)\n"
	os.WriteFile(file, []byte(q), 0o644)
	return modelOfFile(file, timeoutMs)
}

func modelOfFile(file string, timeoutMs int) (map[string]string, string) {
	st, out, _ := runSolver(context.Background(), solvers[0], file, timeoutMs)
	m := map[string]string{}
	if st != "sat" {
		return m, out
	}
	// z3 prints (define-fun name () Sort\n    value)
	flat := regexp.MustCompile(`\s+`).ReplaceAllString(out, " ")
	re := regexp.MustCompile(`\(define-fun (\S+) \(\) (Int|Bool) (\(- \d+\)|-?\d+|true|false)\)`)
	for _, mm := range re.FindAllStringSubmatch(flat, -1) {
		v := mm[3]
		if strings.HasPrefix(v, "(- ") {
			v = "-" + strings.TrimSuffix(strings.TrimPrefix(v, "(- "), ")")
		}
		m[mm[1]] = v
	}
	return m, out
}

// DischargeAll runs obligations in parallel.
func DischargeAll(obls []*Obligation, timeoutMs int, all bool, workers int) []*Result {
	results := make([]*Result, len(obls))
	var wg sync.WaitGroup
	sem := make(chan struct{}, workers)
	for i, o := range obls {
		wg.Add(1)
		sem <- struct{}{}
		go func(i int, o *Obligation) {
			defer wg.Done()
			defer func() { <-sem }()
			results[i] = Discharge(o, timeoutMs, all)
		}(i, o)
	}
	wg.Wait()
	return results
}
