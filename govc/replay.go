package govc

import (
	"encoding/json"
	"fmt"
	"os"
	"path/filepath"
	"sort"
	"strings"
)

// writeReplay records a failed obligation under out/replay/<prop>/<obligation>/ and,
// where a replay strategy exists for the function, replays the solver's
// counterexample against the real code. It returns the directory and whether a
// failing input was reproduced on the real code.
func writeReplay(w *World, ps *PropSpec, r *Result) (string, bool) {
	dir := filepath.Join(OutDir, "replay", ps.ID, safeFile(r.Obl.Name))
	os.RemoveAll(dir)
	os.MkdirAll(dir, 0o755)
	o := r.Obl
	var sb strings.Builder
	fmt.Fprintf(&sb, "property:   %s\nobligation: %s\nkind:       %s\nposition:   %s\nclause:     %s\nstatus:     %s (tried: %s)\n", ps.ID, o.Name, o.Kind, o.Pos, o.Note, r.Status, strings.Join(r.Tried, " "))
	sb.WriteString("\nThe obligation is generated from /repo's current source; on the unchanged tree it is discharged.\n")
	os.WriteFile(filepath.Join(dir, "obligation.txt"), []byte(sb.String()), 0o644)
	os.WriteFile(filepath.Join(dir, "query.smt2"), []byte(o.Query(false)), 0o644)
	os.WriteFile(filepath.Join(dir, "solver_output.txt"), []byte(r.Output), 0o644)
	if o.Func == nil || o.Raw != "" {
		return dir, false
	}
	// candidate counterexample: a model of the query (quantified facts dropped when the
	// full query is undecided; such a candidate is only trusted if it replays).
	model, how := candidateModel(o, r)
	if model != nil {
		ks := make([]string, 0, len(model))
		for k := range model {
			ks = append(ks, k)
		}
		sort.Strings(ks)
		m := map[string]interface{}{"how": how, "values": model}
		data, _ := json.MarshalIndent(m, "", " ")
		os.WriteFile(filepath.Join(dir, "model.json"), data, 0o644)
	}
	ok, transcript := tryReplay(w, dir, o, model)
	if transcript != "" {
		os.WriteFile(filepath.Join(dir, "replay_transcript.txt"), []byte(transcript), 0o644)
	}
	return dir, ok
}

func candidateModel(o *Obligation, r *Result) (map[string]string, string) {
	if r.Status == "sat" {
		m, _ := GetModel(o, 10000)
		if len(m) > 0 {
			return m, "model of the full query (" + r.Solver + ")"
		}
	}
	// quantifier-free relaxation
	q := o.Query(true)
	var keep []string
	for _, l := range strings.Split(q, "\n") {
		if strings.HasPrefix(l, "(assert") && strings.Contains(l, "(forall ") {
			continue
		}
		keep = append(keep, l)
	}
	file := filepath.Join(OutDir, "q", safeFile(o.Name)+".qf.smt2")
	os.MkdirAll(filepath.Dir(file), 0o755)
	os.WriteFile(file, []byte(strings.Join(keep, "\n")+"\n(get-model)\n"), 0o644)
	m, _ := modelOfFile(file, 10000)
	if len(m) > 0 {
		return m, "model of the quantifier-free relaxation (candidate only)"
	}
	return nil, ""
}
