package govc

// tryReplay turns a candidate counterexample into a run of the real code.
// Strategies are registered per function key; none registered => no replay.
func tryReplay(w *World, dir string, o *Obligation, model map[string]string) (bool, string) {
	if model == nil {
		return false, ""
	}
	if f, ok := replayers[o.Func.Key]; ok {
		return f(w, dir, o, model)
	}
	return false, "no replay strategy for " + o.Func.Key + "\n"
}

var replayers = map[string]func(w *World, dir string, o *Obligation, model map[string]string) (bool, string){}
