package govc

import (
	"sort"

	"golang.org/x/tools/go/ssa"
	"golang.org/x/tools/go/ssa/ssautil"
)

// allFuncs returns every function (incl. methods, anonymous) of pkg, sorted by name.
func allFuncs(p *Program, pkg *ssa.Package) []*ssa.Function {
	var out []*ssa.Function
	for f := range ssautil.AllFunctions(p.SSA) {
		if f.Pkg == pkg || (f.Pkg == nil && f.Origin() != nil && f.Origin().Pkg == pkg) {
			out = append(out, f)
		}
	}
	sort.Slice(out, func(i, j int) bool { return out[i].String() < out[j].String() })
	return out
}
