package govc

import (
	"fmt"
	"go/token"
	"go/types"
	"sort"
	"strings"

	"golang.org/x/tools/go/ssa"
)

// Obligation is one proof obligation: under the first NPre prelude assertions,
// Reach /\ not Cond must be unsatisfiable.
type Obligation struct {
	Name    string // fully qualified: <funckey>/<kind>...
	Kind    string
	Cond    Term
	Reach   Term
	NPre    int // number of prelude asserts visible
	NDecl   int
	Pos     string
	Note    string
	Func    *FuncVC
	Trivial bool
	noSplit bool     // already a case of an edge split  // the condition simplified to true while it was generated (discharged syntactically)
	Raw     string   // raw SMT-LIB text (bit-vector lemmas); replaces the generated query
	Expect  string   // "unsat" normally; "sat" for must-fail twins / covers
	Vars    []string // interesting model vars
	Block   *ssa.BasicBlock
}

// State is the symbolic state at a program point.
type State struct {
	cells map[*ssa.Alloc]Term
	heaps map[string]Term
	ghost map[string]Term
}

func newState() *State {
	return &State{cells: map[*ssa.Alloc]Term{}, heaps: map[string]Term{}, ghost: map[string]Term{}}
}

func (s *State) clone() *State {
	n := newState()
	for k, v := range s.cells {
		n.cells[k] = v
	}
	for k, v := range s.heaps {
		n.heaps[k] = v
	}
	for k, v := range s.ghost {
		n.ghost[k] = v
	}
	return n
}

// FuncVC generates verification conditions for one function.
type FuncVC struct {
	W   *World
	Fn  *ssa.Function
	FC  *FuncContract
	Key string
	TE  *TypeEnv

	decls    []string
	declared map[string]bool
	asserts  []string
	Obls     []*Obligation

	vals    map[ssa.Value]Term
	raw     map[ssa.Value]bool // pointer derived from unsafe.Pointer (raw memory access)
	escapes map[*ssa.Alloc]bool
	tuples  map[ssa.Value][]Term

	heapSort    map[string]string
	entry       *State
	params      map[string]Term // contract-visible names -> entry values
	paramTy     map[string]types.Type
	ghostParams map[string]Term

	reach    map[*ssa.BasicBlock]Term
	out      map[*ssa.BasicBlock]*State
	edgeCond map[[2]int]Term

	loops        []*loopInfo // in source order
	loopOf       map[*ssa.BasicBlock]*loopInfo
	fresh        int
	cur          *State
	curReach     Term
	curBlock     *ssa.BasicBlock
	Errors       []string // reasons this function is out of reach
	Trusted      map[string]bool
	callCount    map[string]int
	oblCount     map[string]int
	names        map[*ssa.Alloc]string // source names of cells
	retCount     int
	bv           bool
	abstractBSeq bool
	MathInt      bool            // signed overflow obligations were assumed (opt mathint)
	lastAbs      map[string]Term // abstract accumulator results of the latest call (for after-clauses)
	usedAxioms   map[string]bool
	defers       []deferred
	iterPos      map[ssa.Value]*ssa.Alloc
	mode         string
	rangeIters   map[*ssa.Range]string // ghost name of iterator position
	localNames   map[string]*ssa.Alloc
	stringLits   map[string]Term
	localSlices  map[ssa.Value]localSlice
	castChecked  map[*ssa.Range]bool
	mapKeySorts  map[string]string
	usedSpecs    map[string]bool
	forceAxioms  map[string]bool
	noAxioms     map[string]bool
	axioms       []string
	lemmaName    string
	tablesUsed   map[string]bool
	regTabsUsed  map[string]bool
	inFinish     bool
	noStepFrame  bool
	curPos       token.Pos
	strictState  *State
	stackCells   []stackCell
	heapType     map[string]types.Type
	callOrd      map[ssa.Instruction]int
	assertBlk    []int          // block index during which each assert was emitted (-1: global)
	inEdges      map[int][]Term // incoming edge conditions of merge blocks (for case splits of undecided obligations)
	assertTag    map[int]string // asserts that stem from a property-tagged obligation (assume-after-assert)
	anc          map[int]map[int]bool
}

type stackCell struct {
	addr Term
	size int64
}

type deferred struct {
	call *ssa.Defer
}

type loopInfo struct {
	Header  *ssa.BasicBlock
	Blocks  map[*ssa.BasicBlock]bool
	Ordinal int
	// state snapshot at head after havoc, for decreases
	decr0 []Term
	pre   *State // state before havoc (for loop-modifies frames and old())
	head  *State // state at the loop head of the current (arbitrary) iteration, after havoc
	heaps []string
}

func (fv *FuncVC) errorf(format string, args ...interface{}) {
	msg := fmt.Sprintf(format, args...)
	for _, e := range fv.Errors {
		if e == msg {
			return
		}
	}
	fv.Errors = append(fv.Errors, msg)
}

func (fv *FuncVC) freshName(prefix string) string {
	fv.fresh++
	return fmt.Sprintf("%s!%d", prefix, fv.fresh)
}

func (fv *FuncVC) declare(name, sort string) Term {
	if !fv.declared[name] {
		fv.declared[name] = true
		fv.decls = append(fv.decls, fmt.Sprintf("(declare-const %s %s)", name, sort))
	}
	return Term{S: name, Sort: sort}
}

func (fv *FuncVC) declareFun(name string, args []string, res string) {
	if !fv.declared[name] {
		fv.declared[name] = true
		fv.decls = append(fv.decls, fmt.Sprintf("(declare-fun %s (%s) %s)", name, strings.Join(args, " "), res))
	}
}

// ix is the address of element i (size esz) of a block at base. For esz > 1 it is
// an uninterpreted function with a defining axiom, so that quantifier patterns
// over element reads contain no arithmetic (E-matching on arithmetic is unreliable).
func (fv *FuncVC) ix(base, i Term, esz int64) Term {
	if esz == 1 {
		return add(base, i)
	}
	if esz == 0 {
		return base
	}
	name := fmt.Sprintf("ix.%d", esz)
	if !fv.declared[name] {
		fv.declared[name] = true
		fv.decls = append(fv.decls, fmt.Sprintf("(declare-fun %s (Int Int) Int)", name))
		fv.decls = append(fv.decls, fmt.Sprintf("(assert (forall ((p!i Int) (i!i Int)) (! (= (%s p!i i!i) (+ p!i (* %d i!i))) :pattern ((%s p!i i!i)))))", name, esz, name))
	}
	return mk(SInt, name, base, i)
}

func (fv *FuncVC) freshConst(prefix, sort string) Term {
	return fv.declare(fv.freshName(prefix), sort)
}

func (fv *FuncVC) assume(t Term) {
	if t.S == "true" {
		return
	}
	if fv.inFinish {
		fv.axioms = append(fv.axioms, t.S)
		return
	}
	fv.asserts = append(fv.asserts, t.S)
	b := -1
	if fv.curBlock != nil {
		b = fv.curBlock.Index
	}
	fv.assertBlk = append(fv.assertBlk, b)
}

// assumeGlobal records a fact that does not depend on the program point (facts about
// global addresses, literals, interface boxing, tables): never sliced away.
func (fv *FuncVC) assumeGlobal(t Term) {
	save := fv.curBlock
	fv.curBlock = nil
	fv.assume(t)
	fv.curBlock = save
}

// ancestors returns the set of blocks from which block b is reachable along
// forward (non-back) edges, including b itself.
func (fv *FuncVC) ancestors(b *ssa.BasicBlock) map[int]bool {
	if fv.anc == nil {
		fv.anc = map[int]map[int]bool{}
	}
	if a, ok := fv.anc[b.Index]; ok {
		return a
	}
	a := map[int]bool{b.Index: true}
	fv.anc[b.Index] = a
	for _, p := range b.Preds {
		if fv.isBackEdge(p, b) {
			continue
		}
		for k := range fv.ancestors(p) {
			a[k] = true
		}
	}
	return a
}

// assumeHere assumes t under the current reachability condition.
func (fv *FuncVC) assumeHere(t Term) {
	fv.assume(implies(fv.curReach, t))
}

func (fv *FuncVC) pos(p token.Pos) string {
	if !p.IsValid() {
		return ""
	}
	pp := fv.W.Prog.SSA.Fset.Position(p)
	f := pp.Filename
	if strings.HasPrefix(f, RepoDir+"/") {
		f = f[len(RepoDir)+1:]
	} else if i := strings.Index(f, "/repo/"); i >= 0 {
		f = f[i+6:]
	}
	return fmt.Sprintf("%s:%d", f, pp.Line)
}

// oblige records a proof obligation at the current point, then assumes it.
func (fv *FuncVC) oblige(kind string, what string, cond Term, pos token.Pos, note string) *Obligation {
	base := kind
	if what != "" {
		base += ":" + what
	}
	trivial := cond.S == "true"
	if !pos.IsValid() {
		pos = fv.curPos
	}
	if kind == "overflow" && fv.FC != nil && strings.Contains(fv.FC.Opts["opt"], "mathint") {
		// stated in the contract: machine arithmetic of this function is treated as
		// mathematical (reported as assumption A-MATHINT for the function)
		fv.MathInt = true
		fv.assumeHere(cond)
		return nil
	}
	n := fv.oblCount[base]
	fv.oblCount[base] = n + 1
	o := &Obligation{
		Name:    fmt.Sprintf("%s/%s#%d", fv.Key, base, n),
		Kind:    kind,
		Cond:    cond,
		Reach:   fv.curReach,
		NPre:    len(fv.asserts),
		NDecl:   len(fv.decls),
		Pos:     fv.pos(pos),
		Note:    note,
		Func:    fv,
		Expect:  "unsat",
		Block:   fv.curBlock,
		Trivial: trivial,
	}
	fv.Obls = append(fv.Obls, o)
	if kind == "check" {
		// an `assert` clause of the contract: proved, never assumed - not by callers (it is not part of
		// the postcondition) and not by the obligations that follow (so that a check recorded as a known
		// finding cannot prop up anything else)
		return o
	}
	if !trivial {
		// assert-then-assume; the assumption is visible only to obligations without a property
		// tag or with the same tag, so that each property's obligations are proved on their own
		// (a failing obligation of another property must not prop up this one's proof)
		k := len(fv.asserts)
		fv.assumeHere(cond)
		if m := propTag.FindStringSubmatch(base); m != nil && len(fv.asserts) == k+1 {
			if fv.assertTag == nil {
				fv.assertTag = map[int]string{}
			}
			fv.assertTag[k] = m[1]
		}
	}
	return o
}

// heap returns the current version of a heap array in state s.
func (fv *FuncVC) heap(s *State, name, elemSort string) Term {
	if t, ok := s.heaps[name]; ok {
		return t
	}
	if s == fv.strictState && s != nil {
		fv.abort("opaque spec function reads heap %s, which is not in its reads clause", name)
	}
	as := arrSort(elemSort)
	if old, ok := fv.heapSort[name]; ok && old != as {
		fv.errorf("heap %s used at two sorts %s / %s", name, old, as)
	}
	fv.heapSort[name] = as
	first := !fv.declared[name+"@0"]
	t := fv.declare(name+"@0", as)
	if first {
		fv.heapTyping(name, t)
	}
	return t
}

func (fv *FuncVC) setHeap(s *State, name string, v Term) {
	s.heaps[name] = v
	// stepwise frame: right after each update of the raw byte heap, check (and thereby record)
	// that it still agrees with the entry heap outside the modifies clause; the frame obligation
	// at returns and back edges is then a one-step consequence instead of a long chain.
	if name == "M" && s == fv.cur && fv.Fn != nil && !fv.inFinish && fv.FC.Opts["opt"] != "noframe" && !fv.noStepFrame {
		old := fv.heap(fv.entry, "M", SInt)
		if old.S != v.S {
			envPre := fv.newEnv(fv.entry, fv.entry)
			byHeap, _ := fv.clausesByHeap(envPre, fv.FC.Modifies)
			fv.oblige("frame.step", "M", fv.frameAxiom(envPre, "M", old, v, byHeap["M"]), token.NoPos, "byte heap still agrees with the entry heap outside the modifies clause")
		}
	}
}

// newHeapVersion declares a fresh version of heap name.
func (fv *FuncVC) newHeapVersion(name string) Term {
	as := fv.heapSort[name]
	if as == "" {
		as = SHeap
	}
	t := fv.freshConst(name, as)
	fv.heapTyping(name, t)
	return t
}

// ---------------------------------------------------------------------------
// heap naming

// scalarHeapName returns the heap holding values of (non-struct, non-array) type t
// accessed through typed pointers / slice elements.
func (fv *FuncVC) scalarHeapName(t types.Type) string {
	if b, ok := t.Underlying().(*types.Basic); ok && (b.Kind() == types.Uint8) {
		if _, named := t.(*types.Named); !named {
			return "M"
		}
	}
	n := "P." + mangle(shortTypeName(t))
	if fv.heapType == nil {
		fv.heapType = map[string]types.Type{}
	}
	fv.heapType[n] = t
	return n
}

func (fv *FuncVC) fieldHeapName(st types.Type, field string) string {
	n := "H." + mangle(shortTypeName(st)) + "." + mangle(field)
	if fv.heapType == nil {
		fv.heapType = map[string]types.Type{}
	}
	if _, ok := fv.heapType[n]; !ok {
		if s, ok := st.Underlying().(*types.Struct); ok {
			for i := 0; i < s.NumFields(); i++ {
				if s.Field(i).Name() == field {
					fv.heapType[n] = s.Field(i).Type()
				}
			}
		}
	}
	return n
}

// heapTyping asserts that every cell of a typed heap version holds a value of its Go type.
func (fv *FuncVC) heapTyping(name string, h Term) {
	t, ok := fv.heapType[name]
	if !ok || name == "M" {
		return
	}
	cell := Term{S: "(select " + h.S + " a!y)", Sort: elemSortOf(h.Sort)}
	f := fv.TE.rangeFact(cell, t)
	if f.S == "true" {
		return
	}
	ax := fmt.Sprintf("(forall ((a!y Int)) (! %s :pattern ((select %s a!y))))", f.S, h.S)
	if fv.inFinish {
		fv.axioms = append(fv.axioms, ax)
	} else {
		// typing facts are global (not tied to a block)
		fv.asserts = append(fv.asserts, ax)
		fv.assertBlk = append(fv.assertBlk, -1)
	}
}

// ---------------------------------------------------------------------------
// raw memory helpers (little-endian loads/stores over the byte heap M)

// rawDefs: byte-level (little-endian) definitions of the word accessors. They are used
// only to PROVE the word-level axioms below (memLemmas); the verification conditions
// themselves use uninterpreted accessors plus those axioms, which keeps E-matching
// cheap and avoids div/mod reasoning in every query.
const rawDefs = `
(define-fun ld8 ((m (Array Int Int)) (a Int)) Int (select m a))
(define-fun ld16 ((m (Array Int Int)) (a Int)) Int (+ (select m a) (* 256 (select m (+ a 1)))))
(define-fun ld32 ((m (Array Int Int)) (a Int)) Int (+ (select m a) (* 256 (select m (+ a 1))) (* 65536 (select m (+ a 2))) (* 16777216 (select m (+ a 3)))))
(define-fun ld64 ((m (Array Int Int)) (a Int)) Int (+ (ld32 m a) (* 4294967296 (ld32 m (+ a 4)))))
(define-fun byteN ((v Int) (k Int)) Int (mod (div v k) 256))
(define-fun st8 ((m (Array Int Int)) (a Int) (v Int)) (Array Int Int) (store m a (mod v 256)))
(define-fun st16 ((m (Array Int Int)) (a Int) (v Int)) (Array Int Int) (store (store m a (mod v 256)) (+ a 1) (byteN v 256)))
(define-fun st32 ((m (Array Int Int)) (a Int) (v Int)) (Array Int Int) (store (store (store (store m a (mod v 256)) (+ a 1) (byteN v 256)) (+ a 2) (byteN v 65536)) (+ a 3) (byteN v 16777216)))
(define-fun st64 ((m (Array Int Int)) (a Int) (v Int)) (Array Int Int) (st32 (st32 m a (mod v 4294967296)) (+ a 4) (div (mod v 18446744073709551616) 4294967296)))
(define-fun isbyte ((v Int)) Bool (and (<= 0 v) (< v 256)))
(define-fun isbytes ((m (Array Int Int))) Bool (forall ((a!b Int)) (isbyte (select m a!b))))
`

var memWidths = []int{8, 16, 32, 64}

// memAxioms: the word-level theory of raw memory used in every VC.
func memAxioms() []string {
	var out []string
	pow := map[int]string{8: "256", 16: "65536", 32: "4294967296", 64: "18446744073709551616"}
	for _, n := range memWidths {
		// read-over-write, same address and width
		out = append(out, fmt.Sprintf("(forall ((m (Array Int Int)) (a Int) (v Int)) (! (=> (and (<= 0 v) (< v %s)) (= (ld%d (st%d m a v) a) v)) :pattern ((st%d m a v))))", pow[n], n, n, n))
		// stores keep byte heaps byte heaps
		out = append(out, fmt.Sprintf("(forall ((m (Array Int Int)) (a Int) (v Int)) (! (=> (isbytes m) (isbytes (st%d m a v))) :pattern ((st%d m a v))))", n, n))
		// loads from byte heaps are in range
		if n > 8 {
			out = append(out, fmt.Sprintf("(forall ((m (Array Int Int)) (a Int)) (! (=> (isbytes m) (and (<= 0 (ld%d m a)) (< (ld%d m a) %s))) :pattern ((ld%d m a))))", n, n, pow[n], n))
		}
		for _, k := range memWidths {
			// read-over-write, disjoint ranges (k-bit load after n-bit store)
			ld := fmt.Sprintf("(ld%d (st%d m a v) b)", k, n)
			ld0 := fmt.Sprintf("(ld%d m b)", k)
			if k == 8 {
				ld = fmt.Sprintf("(select (st%d m a v) b)", n)
				ld0 = "(select m b)"
			}
			out = append(out, fmt.Sprintf("(forall ((m (Array Int Int)) (a Int) (v Int) (b Int)) (! (=> (or (<= (+ b %d) a) (<= (+ a %d) b)) (= %s %s)) :pattern (%s)))", k/8, n/8, ld, ld0, ld))
		}
	}
	// word loads depend only on the bytes they cover (extensionality over the window)
	for _, n := range memWidths[1:] {
		out = append(out, fmt.Sprintf("(forall ((m (Array Int Int)) (g (Array Int Int)) (a Int)) (! (=> (forall ((k!w Int)) (=> (and (<= 0 k!w) (< k!w %d)) (= (select m (+ a k!w)) (select g (+ a k!w))))) (= (ld%d m a) (ld%d g a))) :pattern ((ld%d m a) (ld%d g a))))", n/8, n, n, n, n))
	}
	out = append(out, "(forall ((m (Array Int Int)) (a Int)) (! (=> (isbytes m) (isbyte (select m a))) :pattern ((isbytes m) (select m a))))")
	return out
}

const rawPrelude = `
(define-fun ld8 ((m (Array Int Int)) (a Int)) Int (select m a))
(declare-fun ld16 ((Array Int Int) Int) Int)
(declare-fun ld32 ((Array Int Int) Int) Int)
(declare-fun ld64 ((Array Int Int) Int) Int)
(declare-fun st8 ((Array Int Int) Int Int) (Array Int Int))
(declare-fun st16 ((Array Int Int) Int Int) (Array Int Int))
(declare-fun st32 ((Array Int Int) Int Int) (Array Int Int))
(declare-fun st64 ((Array Int Int) Int Int) (Array Int Int))
(declare-fun isbytes ((Array Int Int)) Bool)
(define-fun isbyte ((v Int)) Bool (and (<= 0 v) (< v 256)))
(declare-fun sgn8 (Int) Int)
(declare-fun sgn16 (Int) Int)
(declare-fun sgn32 (Int) Int)
(declare-fun sgn64 (Int) Int)
(assert (forall ((v Int)) (! (= (sgn8 v) (ite (>= v 128) (- v 256) v)) :pattern ((sgn8 v)))))
(assert (forall ((v Int)) (! (= (sgn16 v) (ite (>= v 32768) (- v 65536) v)) :pattern ((sgn16 v)))))
(assert (forall ((v Int)) (! (= (sgn32 v) (ite (>= v 2147483648) (- v 4294967296) v)) :pattern ((sgn32 v)))))
(assert (forall ((v Int)) (! (= (sgn64 v) (ite (>= v 9223372036854775808) (- v 18446744073709551616) v)) :pattern ((sgn64 v)))))
`

// byteHeapFact: every cell of a byte heap is a byte.
func byteHeapFact(m Term) string {
	return fmt.Sprintf("(isbytes %s)", m.S)
}

// rawLoad reads a value of Go type t at address a from byte heap m.
func (fv *FuncVC) rawLoad(m Term, a Term, t types.Type) Term {
	switch u := under(t).(type) {
	case *types.Basic:
		switch {
		case u.Info()&types.IsBoolean != 0:
			return not(eq(mk(SInt, "ld8", m, a), intLit(0)))
		case u.Info()&types.IsString != 0:
			return mkStr(mk(SInt, "ld64", m, a), mk(SInt, "sgn64", mk(SInt, "ld64", m, add(a, intLit(8)))))
		}
		sz := fv.TE.Sizeof(t)
		v := mk(SInt, fmt.Sprintf("ld%d", sz*8), m, a)
		if isSigned(t) {
			v = mk(SInt, fmt.Sprintf("sgn%d", sz*8), v)
		}
		return v
	case *types.Pointer, *types.Map, *types.Chan, *types.Signature:
		return mk(SInt, "ld64", m, a)
	case *types.Slice:
		return mkSlice(mk(SInt, "ld64", m, a),
			mk(SInt, "sgn64", mk(SInt, "ld64", m, add(a, intLit(8)))),
			mk(SInt, "sgn64", mk(SInt, "ld64", m, add(a, intLit(16)))))
	case *types.Struct:
		si := fv.TE.StructInfo(t)
		var args []Term
		for _, f := range si.Fields {
			args = append(args, fv.rawLoad(m, add(a, intLit(f.Off)), f.Type))
		}
		return mk(si.Name, "mk."+si.Name, args...)
	case *types.Interface:
		// two words: (tab, data); opaque value identified by the data word pair
		fv.errorf("raw load of interface value")
	}
	fv.errorf("raw load of unsupported type %s", t)
	return fv.freshConst("unsupported", fv.TE.SortOf(t))
}

// rawStore writes v of Go type t at address a, returning the new byte heap.
func (fv *FuncVC) rawStore(m Term, a Term, t types.Type, v Term) Term {
	switch u := under(t).(type) {
	case *types.Basic:
		switch {
		case u.Info()&types.IsBoolean != 0:
			return mk(SHeap, "st8", m, a, ite(v, intLit(1), intLit(0)))
		case u.Info()&types.IsString != 0:
			m1 := mk(SHeap, "st64", m, a, stPtr(v))
			return mk(SHeap, "st64", m1, add(a, intLit(8)), mk(SInt, "mod", stLen(v), bigLit(pow2(64))))
		}
		sz := fv.TE.Sizeof(t)
		if isSigned(t) {
			v = mk(SInt, "mod", v, bigLit(pow2(uint(sz*8))))
		}
		return mk(SHeap, fmt.Sprintf("st%d", sz*8), m, a, v)
	case *types.Pointer, *types.Map, *types.Chan, *types.Signature:
		return mk(SHeap, "st64", m, a, v)
	case *types.Slice:
		m1 := mk(SHeap, "st64", m, a, slPtr(v))
		m2 := mk(SHeap, "st64", m1, add(a, intLit(8)), mk(SInt, "mod", slLen(v), bigLit(pow2(64))))
		return mk(SHeap, "st64", m2, add(a, intLit(16)), mk(SInt, "mod", slCap(v), bigLit(pow2(64))))
	case *types.Struct:
		si := fv.TE.StructInfo(t)
		for _, f := range si.Fields {
			m = fv.rawStore(m, add(a, intLit(f.Off)), f.Type, mk(f.Sort, f.Name, v))
		}
		return m
	}
	fv.errorf("raw store of unsupported type %s", t)
	return m
}

// ---------------------------------------------------------------------------
// typed memory access

// typedLoad reads a value of type t through a typed pointer with address a.
func (fv *FuncVC) typedLoad(s *State, a Term, t types.Type) Term {
	switch u := under(t).(type) {
	case *types.Struct:
		si := fv.TE.StructInfo(t)
		var args []Term
		for _, f := range si.Fields {
			args = append(args, fv.fieldLoad(s, a, t, f))
		}
		return mk(si.Name, "mk."+si.Name, args...)
	case *types.Array:
		_ = u
		fv.errorf("load of whole array value %s", t)
		return fv.freshConst("arr", fv.TE.SortOf(t))
	}
	hn := fv.scalarHeapName(t)
	h := fv.heap(s, hn, fv.TE.SortOf(t))
	v := sel(h, a)
	if hn == "M" {
		return v
	}
	return v
}

func (fv *FuncVC) typedStore(s *State, a Term, t types.Type, v Term) {
	switch under(t).(type) {
	case *types.Struct:
		si := fv.TE.StructInfo(t)
		for _, f := range si.Fields {
			fv.fieldStore(s, a, t, f, mk(f.Sort, f.Name, v))
		}
		return
	case *types.Array:
		fv.errorf("store of whole array value %s", t)
		return
	}
	hn := fv.scalarHeapName(t)
	h := fv.heap(s, hn, fv.TE.SortOf(t))
	fv.setHeap(s, hn, sto(h, a, v))
}

// fieldLoad reads field f of the struct of type st at base address a.
func (fv *FuncVC) fieldLoad(s *State, a Term, st types.Type, f structField) Term {
	switch under(f.Type).(type) {
	case *types.Struct:
		return fv.typedLoad(s, add(a, intLit(f.Off)), f.Type)
	case *types.Array:
		fv.errorf("load of whole array field %s", f.GoName)
		return fv.freshConst("arr", f.Sort)
	}
	hn := fv.fieldHeapName(st, f.GoName)
	h := fv.heap(s, hn, f.Sort)
	return sel(h, a)
}

func (fv *FuncVC) fieldStore(s *State, a Term, st types.Type, f structField, v Term) {
	switch under(f.Type).(type) {
	case *types.Struct:
		fv.typedStore(s, add(a, intLit(f.Off)), f.Type, v)
		return
	case *types.Array:
		fv.errorf("store of whole array field %s", f.GoName)
		return
	}
	hn := fv.fieldHeapName(st, f.GoName)
	h := fv.heap(s, hn, f.Sort)
	fv.setHeap(s, hn, sto(h, a, v))
}

// zeroValue returns the zero value term of type t.
func (fv *FuncVC) zeroValue(t types.Type) Term {
	switch u := under(t).(type) {
	case *types.Basic:
		switch {
		case u.Info()&types.IsBoolean != 0:
			return tFalse
		case u.Info()&types.IsString != 0:
			return mkStr(intLit(0), intLit(0))
		}
		return intLit(0)
	case *types.Slice:
		return mkSlice(intLit(0), intLit(0), intLit(0))
	case *types.Struct:
		si := fv.TE.StructInfo(t)
		var args []Term
		for _, f := range si.Fields {
			args = append(args, fv.zeroValue(f.Type))
		}
		return mk(si.Name, "mk."+si.Name, args...)
	case *types.Array:
		return mk(fv.TE.SortOf(t), fmt.Sprintf("((as const %s) %s)", fv.TE.SortOf(t), fv.zeroValue(u.Elem()).S))
	}
	return intLit(0)
}

// ---------------------------------------------------------------------------
// loops

func (fv *FuncVC) findLoops() {
	fn := fv.Fn
	fv.loopOf = map[*ssa.BasicBlock]*loopInfo{}
	byHeader := map[*ssa.BasicBlock]*loopInfo{}
	for _, b := range fn.Blocks {
		for _, s := range b.Succs {
			if s.Dominates(b) { // back edge b -> s
				li := byHeader[s]
				if li == nil {
					li = &loopInfo{Header: s, Blocks: map[*ssa.BasicBlock]bool{s: true}}
					byHeader[s] = li
				}
				// natural loop: all blocks that reach b without passing s
				var stack []*ssa.BasicBlock
				if !li.Blocks[b] {
					li.Blocks[b] = true
					stack = append(stack, b)
				}
				for len(stack) > 0 {
					x := stack[len(stack)-1]
					stack = stack[:len(stack)-1]
					for _, p := range x.Preds {
						if !li.Blocks[p] {
							li.Blocks[p] = true
							stack = append(stack, p)
						}
					}
				}
			}
		}
	}
	var hs []*ssa.BasicBlock
	for h := range byHeader {
		hs = append(hs, h)
	}
	sort.Slice(hs, func(i, j int) bool { return loopPos(hs[i]) < loopPos(hs[j]) })
	for i, h := range hs {
		li := byHeader[h]
		li.Ordinal = i
		fv.loops = append(fv.loops, li)
		fv.loopOf[h] = li
	}
}

// loopPos orders loops by the source position of the loop statement; block
// index is the fallback (the SSA builder creates blocks in source order).
func loopPos(h *ssa.BasicBlock) int {
	best := -1
	// the header and its body carry positions; use smallest valid position in
	// the header or, failing that, its successors.
	cands := []*ssa.BasicBlock{h}
	cands = append(cands, h.Succs...)
	for _, b := range cands {
		for _, in := range b.Instrs {
			if p := in.Pos(); p.IsValid() {
				if best < 0 || int(p) < best {
					best = int(p)
				}
			}
		}
		if best >= 0 {
			return best
		}
	}
	return 1<<40 + h.Index
}

// loopModified computes cells and heaps assigned inside loop li.
func (fv *FuncVC) loopModified(li *loopInfo) (cells map[*ssa.Alloc]bool, heaps map[string]bool, ghosts map[string]bool) {
	cells = map[*ssa.Alloc]bool{}
	heaps = map[string]bool{}
	ghosts = map[string]bool{}
	for b := range li.Blocks {
		for _, in := range b.Instrs {
			switch x := in.(type) {
			case *ssa.Store:
				if a := fv.rootCell(x.Addr); a != nil && !fv.escapes[a] {
					cells[a] = true
				} else {
					for _, h := range fv.heapsWrittenBy(x.Addr, x.Val.Type()) {
						heaps[h] = true
					}
				}
			case *ssa.Next:
				if r, ok := x.Iter.(*ssa.Range); ok {
					ghosts[fv.rangeIterName(r)] = true
				}
			case *ssa.MapUpdate:
				heaps["$maps"] = true
			case ssa.CallInstruction:
				hs, gs := fv.callModifies(x)
				for _, h := range hs {
					heaps[h] = true
				}
				for _, g := range gs {
					ghosts[g] = true
				}
			}
		}
	}
	return
}

func (fv *FuncVC) rangeIterName(r *ssa.Range) string {
	if n, ok := fv.rangeIters[r]; ok {
		return n
	}
	n := fmt.Sprintf("$iter%d", len(fv.rangeIters))
	fv.rangeIters[r] = n
	return n
}

// rootCell returns the Alloc underlying an address expression made of
// FieldAddr / IndexAddr chains, or nil.
func (fv *FuncVC) rootCell(v ssa.Value) *ssa.Alloc {
	for {
		switch x := v.(type) {
		case *ssa.Alloc:
			return x
		case *ssa.FieldAddr:
			v = x.X
		case *ssa.IndexAddr:
			if _, ok := x.X.Type().Underlying().(*types.Pointer); ok {
				v = x.X
			} else {
				return nil
			}
		default:
			return nil
		}
	}
}

// heapsWrittenBy names the heaps a store of a value of type vt through addr may touch.
func (fv *FuncVC) heapsWrittenBy(addr ssa.Value, vt types.Type) []string {
	if fv.isRaw(addr) {
		return []string{"M"}
	}
	switch x := addr.(type) {
	case *ssa.FieldAddr:
		if fv.isRaw(x.X) {
			return []string{"M"}
		}
		st := x.X.Type().Underlying().(*types.Pointer).Elem()
		si := fv.TE.StructInfo(st)
		f := si.Fields[x.Field]
		return fv.heapsOfField(st, f)
	}
	return fv.heapsOfType(vt)
}

func (fv *FuncVC) heapsOfField(st types.Type, f structField) []string {
	switch under(f.Type).(type) {
	case *types.Struct:
		return fv.heapsOfType(f.Type)
	}
	return []string{fv.fieldHeapName(st, f.GoName)}
}

func (fv *FuncVC) heapsOfType(t types.Type) []string {
	switch under(t).(type) {
	case *types.Struct:
		var out []string
		si := fv.TE.StructInfo(t)
		for _, f := range si.Fields {
			out = append(out, fv.heapsOfField(t, f)...)
		}
		return out
	}
	return []string{fv.scalarHeapName(t)}
}

// isRawElem: t is one of the layout-overlay struct types named in the contract const "rawtypes".
func (fv *FuncVC) isRawElem(t types.Type) bool {
	if n, ok := t.(*types.Named); ok {
		for _, r := range strings.Fields(fv.W.CS.Consts["rawtypes"]) {
			if n.Obj().Name() == r {
				return true
			}
		}
	}
	return false
}

func (fv *FuncVC) isRaw(v ssa.Value) bool {
	// pointers to layout-overlay structs (declared in the contract const "rawtypes") always
	// address raw memory, whatever cell or register they travelled through.
	if pt, ok := v.Type().Underlying().(*types.Pointer); ok {
		if n, ok := pt.Elem().(*types.Named); ok {
			for _, r := range strings.Fields(fv.W.CS.Consts["rawtypes"]) {
				if n.Obj().Name() == r {
					return true
				}
			}
		}
	}
	switch x := v.(type) {
	case *ssa.Convert:
		if isUnsafePointer(x.X.Type()) {
			if _, ok := x.Type().Underlying().(*types.Pointer); ok {
				return true
			}
		}
		return false
	case *ssa.FieldAddr:
		return fv.isRaw(x.X)
	case *ssa.IndexAddr:
		if _, ok := x.X.Type().Underlying().(*types.Pointer); ok {
			return fv.isRaw(x.X)
		}
		return false
	case *ssa.ChangeType:
		return fv.isRaw(x.X)
	}
	return false
}

// computeEscapes decides which Allocs must live in the heap model.
func (fv *FuncVC) computeEscapes() {
	fv.escapes = map[*ssa.Alloc]bool{}
	var addrOnly func(v ssa.Value, self ssa.Value) bool
	addrOnly = func(v ssa.Value, self ssa.Value) bool {
		refs := v.Referrers()
		if refs == nil {
			return true
		}
		for _, r := range *refs {
			switch x := r.(type) {
			case *ssa.DebugRef:
			case *ssa.UnOp:
				if x.Op != token.MUL {
					return false
				}
			case *ssa.Store:
				if x.Val == v {
					return false
				}
			case *ssa.FieldAddr:
				if !addrOnly(x, x) {
					return false
				}
			case *ssa.IndexAddr:
				if !addrOnly(x, x) {
					return false
				}
			case *ssa.Slice:
				// slicing a local array (varargs / slice literal): handled as a local slice
				if _, isArr := v.Type().Underlying().(*types.Pointer).Elem().Underlying().(*types.Array); !isArr || x.X != v {
					return false
				}
			default:
				return false
			}
		}
		return true
	}
	for _, b := range fv.Fn.Blocks {
		for _, in := range b.Instrs {
			if a, ok := in.(*ssa.Alloc); ok {
				if a.Heap && a.Comment != "" && false {
					fv.escapes[a] = true
				}
				if !addrOnly(a, a) {
					fv.escapes[a] = true
				}
				// heap objects created by new / &T{} : comment "new" or "complit" and Heap
				if a.Heap && (a.Comment == "new" || a.Comment == "complit" || a.Comment == "makeslice") {
					fv.escapes[a] = true
				}
			}
		}
	}
}
