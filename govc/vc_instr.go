package govc

import (
	"fmt"
	"go/constant"
	"go/token"
	"go/types"
	"math/big"
	"strings"

	"golang.org/x/tools/go/ssa"
)

const arithPrelude = `
(define-fun tdiv ((a Int) (b Int)) Int (ite (> b 0) (ite (>= a 0) (div a b) (- (div (- a) b))) (ite (>= a 0) (- (div a (- b))) (div (- a) (- b)))))
(define-fun trem ((a Int) (b Int)) Int (- a (* b (tdiv a b))))
(declare-fun bvand64 (Int Int) Int)
(declare-fun bvor64 (Int Int) Int)
(declare-fun bvxor64 (Int Int) Int)
(declare-fun bvshl64 (Int Int) Int)
(declare-fun bvshr64 (Int Int) Int)
(declare-fun bvandnot64 (Int Int) Int)
(declare-fun feq (Int Int) Bool)
(declare-fun flt (Int Int) Bool)
(declare-fun fop (Int Int Int) Int)
(define-fun ispow2 ((x Int)) Bool (or (= x 1) (= x 2) (= x 4) (= x 8) (= x 16) (= x 32) (= x 64) (= x 128) (= x 256) (= x 512) (= x 1024) (= x 2048) (= x 4096)))
`

// val returns the SMT term of an SSA value.
func (fv *FuncVC) val(v ssa.Value) Term {
	if t, ok := fv.vals[v]; ok {
		return t
	}
	switch x := v.(type) {
	case *ssa.Const:
		return fv.constVal(x)
	case *ssa.Global:
		t := fv.globalAddr(x)
		fv.vals[v] = t
		return t
	case *ssa.Function:
		t := fv.funcConst(x)
		fv.vals[v] = t
		return t
	case *ssa.Builtin:
		return intLit(0)
	case *ssa.Alloc:
		if !fv.escapes[x] {
			fv.abort("address of non-escaping local %s (%s) used as a value", x.Name(), fv.names[x])
		}
	}
	fv.abort("value %s (%T) has no definition at %s", v.Name(), v, fv.pos(v.Pos()))
	return Term{}
}

func (fv *FuncVC) globalAddr(g *ssa.Global) Term {
	name := "adr.g." + mangle(fv.W.pkgShort(g.Pkg.Pkg)) + "." + mangle(g.Name())
	if !fv.declared[name] {
		t := fv.declare(name, SInt)
		fv.assumeGlobal(lt(intLit(0), t))
		// package-level variables exist before any call: below the entry allocation watermark
		if fv.entry != nil {
			gsz := fv.TE.Sizeof(g.Type().Underlying().(*types.Pointer).Elem())
			fv.assumeGlobal(le(add(t, intLit(max64(gsz, 1))), fv.ghostVal(fv.entry, "$brk")))
		}
		fv.globalFacts(g, t)
	}
	return Term{S: name, Sort: SInt, T: g.Type()}
}

func (fv *FuncVC) funcConst(f *ssa.Function) Term {
	name := "fnc." + mangle(fv.W.FuncKey(f))
	if !fv.declared[name] {
		t := fv.declare(name, SInt)
		fv.assumeGlobal(lt(intLit(0), t))
		// distinct from other function constants
		for d := range fv.declared {
			if strings.HasPrefix(d, "fnc.") && d != name {
				fv.assumeGlobal(not(eq(t, Term{S: d, Sort: SInt})))
			}
		}
	}
	return Term{S: name, Sort: SInt, T: f.Type()}
}

func (fv *FuncVC) constVal(c *ssa.Const) Term {
	t := c.Type()
	if c.Value == nil {
		z := fv.zeroValue(t)
		z.T = t
		return z
	}
	switch c.Value.Kind() {
	case constant.Bool:
		if constant.BoolVal(c.Value) {
			return tTrue
		}
		return tFalse
	case constant.Int:
		bi, _ := new(big.Int).SetString(c.Value.ExactString(), 10)
		r := bigLit(bi)
		r.T = t
		return r
	case constant.String:
		return fv.stringLit(constant.StringVal(c.Value))
	case constant.Float:
		// floats are opaque bit patterns; only 0 is recognised
		f, _ := constant.Float64Val(c.Value)
		if f == 0 {
			return intLit(0)
		}
		return fv.freshConst("fconst", SInt)
	}
	fv.abort("unsupported constant %s", c)
	return Term{}
}

// stringLit returns a Str value for a literal; its bytes are asserted for the
// entry byte heap.
func (fv *FuncVC) stringLit(s string) Term {
	if t, ok := fv.stringLits[s]; ok {
		return t
	}
	if s == "" {
		t := mkStr(intLit(0), intLit(0))
		fv.stringLits[s] = t
		return t
	}
	p := fv.freshConst("adr.strlit", SInt)
	fv.assumeGlobal(lt(intLit(0), p))
	m := fv.heap(fv.entry, "M", SInt)
	for i := 0; i < len(s) && i < 64; i++ {
		fv.assumeGlobal(eq(sel(m, add(p, intLit(int64(i)))), intLit(int64(s[i]))))
	}
	t := mkStr(p, intLit(int64(len(s))))
	fv.stringLits[s] = t
	return t
}

// strEqLit: s == "lit" under byte heap m.
func strEqLit(m Term, s Term, lit string) Term {
	cs := []Term{eq(stLen(s), intLit(int64(len(lit))))}
	for i := 0; i < len(lit); i++ {
		cs = append(cs, eq(sel(m, add(stPtr(s), intLit(int64(i)))), intLit(int64(lit[i]))))
	}
	return and(cs...)
}

func (fv *FuncVC) strEq(m Term, a, b Term) Term {
	fv.needStrEq()
	return mk(SBool, "streq", m, a, b)
}

func (fv *FuncVC) needStrEq() {
	if !fv.declared["streq"] {
		fv.declared["streq"] = true
		// an uninterpreted symbol with its definition as an axiom (triggered by the atom itself): equal
		// arguments give equal atoms by congruence, without comparing two copies of the quantified body
		fv.decls = append(fv.decls, "(declare-fun streq ((Array Int Int) Str Str) Bool)")
		fv.axioms = append(fv.axioms, "(forall ((m!s (Array Int Int)) (a!s Str) (b!s Str)) (! (= (streq m!s a!s b!s) (and (= (st.len a!s) (st.len b!s)) (forall ((i!s Int)) (=> (and (<= 0 i!s) (< i!s (st.len a!s))) (= (select m!s (+ (st.ptr a!s) i!s)) (select m!s (+ (st.ptr b!s) i!s))))))) :pattern ((streq m!s a!s b!s))))")
	}
}

// ---------------------------------------------------------------------------

func (fv *FuncVC) setVal(v ssa.Value, t Term) {
	t.T = v.Type()
	fv.vals[v] = t
}

// define introduces a named constant for the value of an SSA register (keeps
// terms small and gives the model something to show).
func (fv *FuncVC) define(v ssa.Value, t Term) {
	if len(t.S) < 160 || t.Sort == "Tuple" {
		fv.setVal(v, t)
		return
	}
	name := "r." + v.Name()
	if fv.declared[name] {
		name = fv.freshName("r." + v.Name())
	}
	c := fv.declare(name, t.Sort)
	fv.assume(eq(c, t))
	fv.setVal(v, c)
}

func (fv *FuncVC) instr(in ssa.Instruction) {
	if p := in.Pos(); p.IsValid() {
		fv.curPos = p
	}
	switch x := in.(type) {
	case *ssa.DebugRef:
	case *ssa.Alloc:
		fv.doAlloc(x)
	case *ssa.Store:
		fv.store(x.Addr, fv.val(x.Val), x.Pos())
	case *ssa.UnOp:
		fv.unop(x)
	case *ssa.BinOp:
		fv.binop(x)
	case *ssa.FieldAddr:
		fv.fieldAddr(x)
	case *ssa.IndexAddr:
		fv.indexAddr(x)
	case *ssa.Field:
		s := fv.val(x.X)
		si := fv.TE.StructInfo(x.X.Type())
		f := si.Fields[x.Field]
		fv.setVal(x, mk(f.Sort, f.Name, s))
	case *ssa.Index:
		a := fv.val(x.X)
		i := fv.val(x.Index)
		if arr, ok := x.X.Type().Underlying().(*types.Array); ok {
			fv.oblige("index", x.X.Name(), and(le(intLit(0), i), lt(i, intLit(arr.Len()))), x.Pos(), "array index in range")
		}
		if a.Sort == SStr {
			// s[i] on a string value
			fv.oblige("index", fv.srcName(x.X), and(le(intLit(0), i), lt(i, stLen(a))), x.Pos(), "string index in range")
			v := sel(fv.heap(fv.cur, "M", SInt), add(stPtr(a), i))
			fv.define(x, v)
			fv.assume(and(le(intLit(0), fv.val(x)), le(fv.val(x), intLit(255))))
			break
		}
		fv.setVal(x, mk(elemSortOf(a.Sort), "select", a, i))
	case *ssa.Convert:
		fv.convert(x)
	case *ssa.ChangeType:
		t := fv.val(x.X)
		t.T = x.Type()
		fv.vals[x] = t
	case *ssa.ChangeInterface:
		t := fv.val(x.X)
		t.T = x.Type()
		fv.vals[x] = t
	case *ssa.MakeInterface:
		fv.setVal(x, fv.box(x.X.Type(), fv.val(x.X)))
	case *ssa.TypeAssert:
		fv.typeAssert(x)
	case *ssa.Extract:
		ts, ok := fv.tuples[x.Tuple]
		if !ok || x.Index >= len(ts) {
			fv.abort("extract from unknown tuple %s", x.Tuple.Name())
		}
		fv.setVal(x, ts[x.Index])
	case *ssa.Phi:
		fv.phi(x)
	case *ssa.If:
		c := fv.val(x.Cond)
		b := x.Block()
		fv.edgeCond[[2]int{b.Index, b.Succs[0].Index}] = c
		fv.edgeCond[[2]int{b.Index, b.Succs[1].Index}] = not(c)
		if b.Succs[0] == b.Succs[1] {
			delete(fv.edgeCond, [2]int{b.Index, b.Succs[0].Index})
		}
	case *ssa.Jump:
	case *ssa.Return:
		fv.doReturn(x)
	case *ssa.RunDefers:
	case *ssa.Defer:
		fv.doDefer(x)
	case *ssa.Panic:
		fv.doPanic(x)
	case *ssa.Call:
		fv.call(x)
	case *ssa.Slice:
		fv.sliceOp(x)
	case *ssa.MakeSlice:
		fv.makeSlice(x)
	case *ssa.MakeMap:
		m := fv.freshConst("map", SInt)
		fv.assumeHere(lt(intLit(0), m))
		fv.assumeHere(eq(fv.mapLen(fv.cur, m), intLit(0)))
		if mt, ok := x.Type().Underlying().(*types.Map); ok {
			// a map just made has no keys (in the current and - being unreachable so far - in any later version
			// until it is updated; the version-wise frame axioms of mapUpdate/mapDelete carry that)
			has, _, ks, _ := fv.mapFuns(mt)
			ver := fv.mapsVersion(fv.cur)
			fv.assumeHere(Term{S: fmt.Sprintf("(forall ((k!n %s)) (! (not (%s %s %s k!n)) :pattern ((%s %s %s k!n))))", ks, has, ver.S, m.S, has, ver.S, m.S), Sort: SBool})
		}
		fv.setVal(x, m)
	case *ssa.MakeClosure:
		fv.makeClosure(x)
	case *ssa.Lookup:
		fv.lookup(x)
	case *ssa.MapUpdate:
		fv.mapUpdate(x)
	case *ssa.Range:
		fv.rangeInit(x)
	case *ssa.Next:
		fv.rangeNext(x)
	default:
		fv.abort("unsupported instruction %T at %s", in, fv.pos(in.Pos()))
	}
}

// ---------------------------------------------------------------------------
// allocation

func (fv *FuncVC) doAlloc(a *ssa.Alloc) {
	et := a.Type().Underlying().(*types.Pointer).Elem()
	if !fv.escapes[a] {
		z := fv.zeroValue(et)
		z.T = et
		fv.cur.cells[a] = z
		return
	}
	addr := fv.freshConst("adr."+a.Name(), SInt)
	fv.assume(lt(intLit(0), addr))
	sz := fv.TE.Sizeof(et)
	al := fv.TE.Alignof(et)
	if al > 1 {
		fv.assume(eq(mk(SInt, "mod", addr, intLit(al)), intLit(0)))
	}
	// freshness via the allocation watermark
	brk := fv.ghostVal(fv.cur, "$brk")
	fv.assumeHere(le(brk, addr))
	if a.Heap {
		nb := fv.freshConst("g.brk", SInt)
		fv.assumeHere(le(add(addr, intLit(max64(sz, 1))), nb))
		fv.cur.ghost["$brk"] = nb
	} else {
		// stack cell whose address is taken: a new object (above the watermark of pre-existing
		// memory) that is not a heap allocation; distinct from the other stack cells
		for _, o := range fv.stackCells {
			fv.assume(or(le(add(addr, intLit(max64(sz, 1))), o.addr), le(add(o.addr, intLit(max64(o.size, 1))), addr)))
		}
		fv.stackCells = append(fv.stackCells, stackCell{addr, sz})
		// later allocations - also the address-taken locals of callees - lie above this cell
		nb := fv.freshConst("g.brk", SInt)
		fv.assumeHere(le(add(addr, intLit(max64(sz, 1))), nb))
		fv.cur.ghost["$brk"] = nb
	}
	addr.T = a.Type()
	fv.vals[a] = addr
	// zero-initialise
	switch under(et).(type) {
	case *types.Array:
		// arrays of scalars: element heap zeroed lazily is not modelled; contents unknown.
		// (varargs / slicelit arrays are written before use.)
	default:
		fv.typedStore(fv.cur, addr, et, fv.zeroValue(et))
	}
}

func max64(a, b int64) int64 {
	if a > b {
		return a
	}
	return b
}

func (fv *FuncVC) ghostVal(s *State, name string) Term {
	if t, ok := s.ghost[name]; ok {
		return t
	}
	return fv.ghostEntry(name)
}

func (fv *FuncVC) ghostEntry(name string) Term {
	sortS := SInt
	if gs, ok := fv.W.ghostSort(name); ok {
		sortS = gs
	}
	t := fv.declare("g."+mangle(name)+"@0", sortS)
	if name == "$brk" && !fv.declared["brkfact"] {
		fv.declared["brkfact"] = true
		fv.assumeGlobal(lt(intLit(0), t))
	}
	return t
}

func (w *World) ghostSort(name string) (string, bool) {
	if s, ok := w.CS.Consts["ghost "+name]; ok {
		return s, true
	}
	return "", false
}

// ---------------------------------------------------------------------------
// loads and stores

func (fv *FuncVC) unop(x *ssa.UnOp) {
	switch x.Op {
	case token.MUL:
		fv.define(x, fv.load(x.X, x.Pos()))
	case token.NOT:
		fv.setVal(x, not(fv.val(x.X)))
	case token.SUB:
		v := fv.val(x.X)
		r := mk(SInt, "-", v)
		if isSigned(x.Type()) {
			lo, hi, _ := intRange(x.Type())
			fv.oblige("overflow", "neg", and(le(bigLit(lo), r), le(r, bigLit(hi))), x.Pos(), "negation does not overflow")
		} else if isIntegerType(x.Type()) {
			r = wrapTo(r, x.Type())
		}
		fv.define(x, r)
	case token.XOR:
		v := fv.val(x.X)
		if isSigned(x.Type()) {
			fv.define(x, sub(mk(SInt, "-", v), intLit(1)))
		} else {
			_, hi, _ := intRange(x.Type())
			fv.define(x, sub(bigLit(hi), v))
		}
	default:
		fv.abort("unsupported unary op %s", x.Op)
	}
}

func (fv *FuncVC) nilCheck(addr ssa.Value, a Term, pos token.Pos) {
	switch addr.(type) {
	case *ssa.Global, *ssa.Alloc:
		return
	}
	if fa, ok := addr.(*ssa.FieldAddr); ok {
		// nil check is on the base pointer, done at the FieldAddr
		_ = fa
		return
	}
	if _, ok := addr.(*ssa.IndexAddr); ok {
		return
	}
	fv.oblige("nilderef", fv.srcName(addr), not(eq(a, intLit(0))), pos, "pointer dereference of non-nil pointer")
}

func (fv *FuncVC) load(addr ssa.Value, pos token.Pos) Term {
	et := addr.Type().Underlying().(*types.Pointer).Elem()
	if root := fv.rootCell(addr); root != nil && !fv.escapes[root] {
		v := fv.cellLoad(addr)
		if v.T == nil {
			v.T = et
		}
		return v
	}
	a := fv.val(addr)
	fv.nilCheck(addr, a, pos)
	var v Term
	if fv.isRaw(addr) {
		v = fv.rawLoad(fv.heap(fv.cur, "M", SInt), a, et)
		if fv.TE.SortOf(et) == SBool {
			// A-BOOL: a Go bool in memory is the byte 0 or 1
			fv.assumeHere(le(sel(fv.heap(fv.cur, "M", SInt), a), intLit(1)))
		}
	} else if fa, ok := addr.(*ssa.FieldAddr); ok {
		st := fa.X.Type().Underlying().(*types.Pointer).Elem()
		si := fv.TE.StructInfo(st)
		v = fv.fieldLoad(fv.cur, fv.val(fa.X), st, si.Fields[fa.Field])
	} else {
		v = fv.typedLoad(fv.cur, a, et)
	}
	v.T = et
	// typing facts of loaded values
	if f := fv.TE.rangeFact(v, et); f.S != "true" && len(v.S) < 400 {
		fv.assume(f)
	}
	return v
}

func (fv *FuncVC) store(addr ssa.Value, v Term, pos token.Pos) {
	et := addr.Type().Underlying().(*types.Pointer).Elem()
	if root := fv.rootCell(addr); root != nil && !fv.escapes[root] {
		fv.cellStore(addr, v)
		return
	}
	a := fv.val(addr)
	fv.nilCheck(addr, a, pos)
	if v.Sort == SBSeq {
		fv.abort("abstract byte sequence stored to memory at %s", fv.pos(pos))
	}
	if fv.isRaw(addr) {
		m := fv.heap(fv.cur, "M", SInt)
		nm := fv.rawStore(m, a, et, v)
		// name the new version to keep terms small
		c := fv.newHeapVersion("M")
		fv.assume(eq(c, nm))
		fv.setHeap(fv.cur, "M", c)
		fv.noteStore("M", a, fv.TE.Sizeof(et), pos)
		return
	}
	if fa, ok := addr.(*ssa.FieldAddr); ok {
		st := fa.X.Type().Underlying().(*types.Pointer).Elem()
		si := fv.TE.StructInfo(st)
		fv.fieldStore(fv.cur, fv.val(fa.X), st, si.Fields[fa.Field], v)
		return
	}
	fv.typedStore(fv.cur, a, et, v)
}

// noteStore is a hook for frame bookkeeping of raw stores (currently unused:
// frames are checked at return by comparing heap versions).
func (fv *FuncVC) noteStore(heap string, a Term, size int64, pos token.Pos) {}

func (fv *FuncVC) cellLoad(addr ssa.Value) Term {
	switch x := addr.(type) {
	case *ssa.Alloc:
		v, ok := fv.cur.cells[x]
		if !ok {
			et := x.Type().Underlying().(*types.Pointer).Elem()
			v = fv.zeroValue(et)
		}
		return v
	case *ssa.FieldAddr:
		s := fv.cellLoad(x.X)
		st := x.X.Type().Underlying().(*types.Pointer).Elem()
		si := fv.TE.StructInfo(st)
		f := si.Fields[x.Field]
		r := mk(f.Sort, f.Name, s)
		r.T = f.Type
		return r
	case *ssa.IndexAddr:
		arr := fv.cellLoad(x.X)
		i := fv.val(x.Index)
		at := x.X.Type().Underlying().(*types.Pointer).Elem().Underlying().(*types.Array)
		fv.oblige("index", x.X.Name(), and(le(intLit(0), i), lt(i, intLit(at.Len()))), x.Pos(), "array index in range")
		r := mk(elemSortOf(arr.Sort), "select", arr, i)
		r.T = at.Elem()
		return r
	}
	fv.abort("cellLoad of %T", addr)
	return Term{}
}

func (fv *FuncVC) cellStore(addr ssa.Value, v Term) {
	switch x := addr.(type) {
	case *ssa.Alloc:
		if v.T == nil {
			v.T = x.Type().Underlying().(*types.Pointer).Elem()
		}
		fv.cur.cells[x] = v
	case *ssa.FieldAddr:
		st := x.X.Type().Underlying().(*types.Pointer).Elem()
		si := fv.TE.StructInfo(st)
		if si == nil || isOpaque(st) {
			// a field of an opaque struct value (e.g. sync.Pool{New: f}): the value stays opaque
			nv := fv.freshConst("opq", SInt)
			nv.T = st
			fv.cellStore(x.X, nv)
			return
		}
		old := fv.cellLoad(x.X)
		var args []Term
		for i, f := range si.Fields {
			if i == x.Field {
				args = append(args, v)
			} else {
				args = append(args, mk(f.Sort, f.Name, old))
			}
		}
		nv := mk(si.Name, "mk."+si.Name, args...)
		nv.T = st
		fv.cellStore(x.X, nv)
	case *ssa.IndexAddr:
		arr := fv.cellLoad(x.X)
		i := fv.val(x.Index)
		at := x.X.Type().Underlying().(*types.Pointer).Elem().Underlying().(*types.Array)
		fv.oblige("index", x.X.Name(), and(le(intLit(0), i), lt(i, intLit(at.Len()))), x.Pos(), "array index in range")
		nv := mk(arr.Sort, "store", arr, i, v)
		nv.T = x.X.Type().Underlying().(*types.Pointer).Elem()
		fv.cellStore(x.X, nv)
	default:
		fv.abort("cellStore of %T", addr)
	}
}

func (fv *FuncVC) fieldAddr(x *ssa.FieldAddr) {
	if root := fv.rootCell(x); root != nil && !fv.escapes[root] {
		return // path into a local cell; resolved at load/store
	}
	base := fv.val(x.X)
	if !fv.isRaw(x.X) {
		switch x.X.(type) {
		case *ssa.Global, *ssa.Alloc, *ssa.FieldAddr, *ssa.IndexAddr:
		default:
			fv.oblige("nilderef", fv.srcName(x.X), not(eq(base, intLit(0))), x.Pos(), "field access through non-nil pointer")
		}
	}
	st := x.X.Type().Underlying().(*types.Pointer).Elem()
	si := fv.TE.StructInfo(st)
	f := si.Fields[x.Field]
	fv.setVal(x, add(base, intLit(f.Off)))
	fv.checkAddrUse(x)
}

// checkAddrUse enforces the discipline that makes per-field heaps sound: the
// address of a scalar field/element is only loaded from or stored to.
func (fv *FuncVC) checkAddrUse(v ssa.Value) {
	et := v.Type().Underlying().(*types.Pointer).Elem()
	switch under(et).(type) {
	case *types.Struct, *types.Array:
		return
	}
	if isOpaque(et) {
		return // contents are only ever touched by trusted functions
	}
	if fv.isRaw(v) {
		return
	}
	if _, isField := v.(*ssa.FieldAddr); !isField {
		return // element addresses live in the per-type heap anyway
	}
	refs := v.Referrers()
	if refs == nil {
		return
	}
	for _, r := range *refs {
		switch y := r.(type) {
		case *ssa.DebugRef:
		case *ssa.UnOp:
		case *ssa.Store:
			if y.Val == v {
				fv.errorf("address of field escapes (stored) at %s", fv.pos(y.Pos()))
			}
		case *ssa.Convert:
			// &x.f -> unsafe.Pointer: allowed only for trusted hack functions
			fv.errorf("address of field converted to unsafe.Pointer at %s", fv.pos(y.Pos()))
		default:
			if c, ok := r.(ssa.CallInstruction); ok {
				_ = c
				fv.errorf("address of scalar field passed to a call at %s", fv.pos(r.Pos()))
			}
		}
	}
}

func (fv *FuncVC) indexAddr(x *ssa.IndexAddr) {
	if root := fv.rootCell(x); root != nil && !fv.escapes[root] {
		return
	}
	i := fv.val(x.Index)
	switch u := under(x.X.Type()).(type) {
	case *types.Slice:
		s := fv.val(x.X)
		if s.Sort == SBSeq {
			fv.abort("index into abstract byte sequence at %s", fv.pos(x.Pos()))
		}
		fv.oblige("index", fv.srcName(x.X), and(le(intLit(0), i), lt(i, slLen(s))), x.Pos(), "slice index in range")
		esz := fv.TE.Sizeof(u.Elem())
		fv.define(x, fv.ix(slPtr(s), i, esz))
	case *types.Pointer:
		at := u.Elem().Underlying().(*types.Array)
		base := fv.val(x.X)
		fv.oblige("index", fv.srcName(x.X), and(le(intLit(0), i), lt(i, intLit(at.Len()))), x.Pos(), "array index in range")
		esz := fv.TE.Sizeof(at.Elem())
		fv.define(x, fv.ix(base, i, esz))
	default:
		fv.abort("IndexAddr on %s", x.X.Type())
	}
}

// srcName gives a stable, source-level name for a value (for obligation names).
func (fv *FuncVC) srcName(v ssa.Value) string {
	switch x := v.(type) {
	case *ssa.UnOp:
		if x.Op == token.MUL {
			if a, ok := x.X.(*ssa.Alloc); ok && fv.names[a] != "" {
				return fv.names[a]
			}
			if fa, ok := x.X.(*ssa.FieldAddr); ok {
				st := fa.X.Type().Underlying().(*types.Pointer).Elem()
				if si := fv.TE.StructInfo(st); si != nil {
					return si.Fields[fa.Field].GoName
				}
			}
			if g, ok := x.X.(*ssa.Global); ok {
				return g.Name()
			}
		}
	case *ssa.Parameter:
		return x.Name()
	case *ssa.Global:
		return x.Name()
	case *ssa.Slice:
		return fv.srcName(x.X)
	case *ssa.FieldAddr:
		st := x.X.Type().Underlying().(*types.Pointer).Elem()
		if si := fv.TE.StructInfo(st); si != nil {
			return si.Fields[x.Field].GoName
		}
	}
	return "_"
}

// ---------------------------------------------------------------------------
// arithmetic

func constOf(v ssa.Value) (*big.Int, bool) {
	c, ok := v.(*ssa.Const)
	if !ok || c.Value == nil || c.Value.Kind() != constant.Int {
		return nil, false
	}
	bi, ok := new(big.Int).SetString(c.Value.ExactString(), 10)
	return bi, ok
}

func isPow2Minus1(n *big.Int) (uint, bool) {
	if n.Sign() < 0 {
		return 0, false
	}
	m := new(big.Int).Add(n, big.NewInt(1))
	if m.BitLen() > 0 && new(big.Int).And(m, n).Sign() == 0 {
		return uint(m.BitLen() - 1), true
	}
	return 0, false
}

func isPow2(n *big.Int) (uint, bool) {
	if n.Sign() <= 0 {
		return 0, false
	}
	if new(big.Int).And(n, new(big.Int).Sub(n, big.NewInt(1))).Sign() == 0 {
		return uint(n.BitLen() - 1), true
	}
	return 0, false
}

func (fv *FuncVC) binop(x *ssa.BinOp) {
	a, b := fv.val(x.X), fv.val(x.Y)
	t := x.Type()
	xt := x.X.Type()
	switch x.Op {
	case token.ADD, token.SUB, token.MUL:
		if bt, ok := xt.Underlying().(*types.Basic); ok && bt.Info()&types.IsString != 0 {
			// string concatenation: opaque result
			r := fv.freshConst("strcat", SStr)
			fv.assume(fv.TE.rangeFact(r, xt))
			fv.assume(eq(stLen(r), add(stLen(a), stLen(b))))
			fv.setVal(x, r)
			return
		}
		if bt, ok := xt.Underlying().(*types.Basic); ok && bt.Info()&types.IsFloat != 0 {
			fv.define(x, mk(SInt, "fop", intLit(int64(x.Op)), a, b))
			return
		}
		op := map[token.Token]string{token.ADD: "+", token.SUB: "-", token.MUL: "*"}[x.Op]
		r := mk(SInt, op, a, b)
		if isSigned(t) {
			lo, hi, _ := intRange(t)
			fv.oblige("overflow", x.Op.String(), and(le(bigLit(lo), r), le(r, bigLit(hi))), x.Pos(), "signed arithmetic does not overflow")
		} else {
			fv.defineWrapped(x, r, t)
			return
		}
		fv.define(x, r)
	case token.QUO, token.REM:
		if bt, ok := xt.Underlying().(*types.Basic); ok && bt.Info()&types.IsFloat != 0 {
			fv.define(x, mk(SInt, "fop", intLit(int64(x.Op)), a, b))
			return
		}
		fv.oblige("div0", "", not(eq(b, intLit(0))), x.Pos(), "divisor is non-zero")
		f := "tdiv"
		if x.Op == token.REM {
			f = "trem"
		}
		if c, ok := constOf(x.Y); ok && c.Sign() > 0 && !isSigned(t) {
			if x.Op == token.QUO {
				fv.define(x, mk(SInt, "div", a, b))
			} else {
				fv.define(x, mk(SInt, "mod", a, b))
			}
			return
		}
		r := mk(SInt, f, a, b)
		fv.define(x, r)
	case token.SHL:
		if c, ok := constOf(x.Y); ok && c.IsInt64() && c.Int64() < 64 {
			r := mul(a, bigLit(pow2(uint(c.Int64()))))
			if isSigned(t) {
				lo, hi, _ := intRange(t)
				fv.oblige("overflow", "<<", and(le(bigLit(lo), r), le(r, bigLit(hi))), x.Pos(), "shift does not overflow")
			} else {
				r = wrapTo(r, t)
			}
			fv.define(x, r)
			return
		}
		fv.uf2(x, "bvshl64", a, b)
	case token.SHR:
		if c, ok := constOf(x.Y); ok && c.IsInt64() && c.Int64() < 64 {
			fv.define(x, mk(SInt, "div", a, bigLit(pow2(uint(c.Int64())))))
			return
		}
		fv.uf2(x, "bvshr64", a, b)
	case token.AND:
		if t.Underlying().(*types.Basic).Info()&types.IsBoolean != 0 {
			fv.setVal(x, and(a, b))
			return
		}
		if c, ok := constOf(x.Y); ok {
			if k, ok := isPow2Minus1(c); ok {
				fv.define(x, mk(SInt, "mod", a, bigLit(pow2(k))))
				return
			}
			if k, ok := isPow2(c); ok {
				fv.define(x, mul(mk(SInt, "mod", mk(SInt, "div", a, bigLit(pow2(k))), intLit(2)), bigLit(pow2(k))))
				return
			}
		}
		if c, ok := constOf(x.X); ok {
			if k, ok := isPow2Minus1(c); ok {
				fv.define(x, mk(SInt, "mod", b, bigLit(pow2(k))))
				return
			}
		}
		// a & ^m  with m+1 a power of two
		if u, ok := x.Y.(*ssa.UnOp); ok && u.Op == token.XOR && !isSigned(t) {
			m := fv.val(u.X)
			fv.oblige("bitmask", "", mk(SBool, "ispow2", add(m, intLit(1))), x.Pos(), "mask+1 is a power of two")
			fv.define(x, sub(a, mk(SInt, "mod", a, add(m, intLit(1)))))
			return
		}
		fv.uf2(x, "bvand64", a, b)
	case token.OR:
		// a | (y << k) with a < 2^k  (big-endian composition): a + y*2^k
		if k, ok := shlConst(x.Y); ok {
			if u := staticUB(x.X); u != nil && u.Cmp(pow2(k)) < 0 {
				fv.define(x, add(a, b))
				return
			}
		}
		if k, ok := shlConst(x.X); ok {
			if u := staticUB(x.Y); u != nil && u.Cmp(pow2(k)) < 0 {
				fv.define(x, add(a, b))
				return
			}
		}
		if c, ok := constOf(x.Y); ok {
			if k, ok := isPow2(c); ok {
				bit := mk(SInt, "mod", mk(SInt, "div", a, bigLit(pow2(k))), intLit(2))
				fv.define(x, add(a, mul(sub(intLit(1), bit), bigLit(pow2(k)))))
				return
			}
		}
		fv.uf2(x, "bvor64", a, b)
	case token.XOR:
		fv.uf2(x, "bvxor64", a, b)
	case token.AND_NOT:
		fv.uf2(x, "bvandnot64", a, b)
	case token.EQL, token.NEQ:
		var r Term
		switch {
		case a.Sort == SStr:
			r = fv.stringEq(x.X, x.Y, a, b)
		case isFloatType(xt):
			r = mk(SBool, "feq", a, b)
		default:
			if a.Sort != b.Sort {
				fv.abort("comparison of different sorts %s / %s at %s", a.Sort, b.Sort, fv.pos(x.Pos()))
			}
			r = eq(a, b)
		}
		if x.Op == token.NEQ {
			r = not(r)
		}
		fv.define(x, r)
	case token.LSS, token.LEQ, token.GTR, token.GEQ:
		if isFloatType(xt) {
			fv.define(x, mk(SBool, "flt", a, b))
			return
		}
		if a.Sort != SInt {
			fv.abort("ordering on sort %s", a.Sort)
		}
		op := map[token.Token]string{token.LSS: "<", token.LEQ: "<=", token.GTR: ">", token.GEQ: ">="}[x.Op]
		fv.define(x, mk(SBool, op, a, b))
	default:
		fv.abort("unsupported binary op %s", x.Op)
	}
}

// defineWrapped names the wrap-around of an exact result r to unsigned type t and adds the
// (valid) arithmetic fact that the wrap is the identity when r is in range, which spares the
// solver reasoning about mod in the common no-overflow case.
func (fv *FuncVC) defineWrapped(x ssa.Value, r Term, t types.Type) {
	_, hi, ok := intRange(t)
	if !ok {
		fv.define(x, r)
		return
	}
	w := wrapTo(r, t)
	c := fv.freshConst("r."+x.Name(), SInt)
	fv.assume(eq(c, w))
	fv.assume(and(le(intLit(0), c), le(c, bigLit(hi))))
	fv.assume(implies(and(le(intLit(0), r), le(r, bigLit(hi))), eq(c, r)))
	fv.setVal(x, c)
}

// shlConst reports whether v is x << k for a constant k.
func shlConst(v ssa.Value) (uint, bool) {
	b, ok := v.(*ssa.BinOp)
	if !ok || b.Op != token.SHL {
		return 0, false
	}
	c, ok := constOf(b.Y)
	if !ok || !c.IsInt64() || c.Int64() >= 64 {
		return 0, false
	}
	return uint(c.Int64()), true
}

// staticUB is a syntactic upper bound (inclusive) of an unsigned expression, or nil.
func staticUB(v ssa.Value) *big.Int {
	switch x := v.(type) {
	case *ssa.Const:
		if c, ok := constOf(x); ok && c.Sign() >= 0 {
			return c
		}
	case *ssa.Convert:
		var inner *big.Int
		if isUnsignedInt(x.X.Type()) {
			inner = staticUB(x.X)
		}
		if !isUnsignedInt(x.Type()) {
			return nil
		}
		_, hi, _ := intRange(x.Type())
		if inner != nil && inner.Cmp(hi) < 0 {
			return inner
		}
		return hi
	case *ssa.BinOp:
		switch x.Op {
		case token.SHL:
			if k, ok := shlConst(x); ok {
				if u := staticUB(x.X); u != nil {
					r := new(big.Int).Lsh(u, k)
					if _, hi, ok := intRange(x.Type()); ok && r.Cmp(hi) > 0 {
						return hi
					}
					return r
				}
			}
		case token.OR:
			a, b := staticUB(x.X), staticUB(x.Y)
			if a != nil && b != nil {
				m := a
				if b.Cmp(a) > 0 {
					m = b
				}
				return new(big.Int).Sub(pow2(uint(m.BitLen())), big.NewInt(1))
			}
		}
	}
	if isUnsignedInt(v.Type()) {
		_, hi, _ := intRange(v.Type())
		return hi
	}
	return nil
}

func isFloatType(t types.Type) bool {
	b, ok := t.Underlying().(*types.Basic)
	return ok && b.Info()&types.IsFloat != 0
}

func (fv *FuncVC) uf2(x *ssa.BinOp, f string, a, b Term) {
	fv.usedSpecs[f] = true
	r := mk(SInt, f, a, b)
	c := fv.freshConst("r."+x.Name(), SInt)
	fv.assume(eq(c, r))
	fv.assume(fv.TE.rangeFact(c, x.Type()))
	fv.setVal(x, c)
}

func (fv *FuncVC) stringEq(xv, yv ssa.Value, a, b Term) Term {
	m := fv.heap(fv.cur, "M", SInt)
	if c, ok := yv.(*ssa.Const); ok && c.Value != nil && c.Value.Kind() == constant.String {
		return strEqLit(m, a, constant.StringVal(c.Value))
	}
	if c, ok := xv.(*ssa.Const); ok && c.Value != nil && c.Value.Kind() == constant.String {
		return strEqLit(m, b, constant.StringVal(c.Value))
	}
	return fv.strEq(m, a, b)
}

func (fv *FuncVC) convert(x *ssa.Convert) {
	v := fv.val(x.X)
	from, to := x.X.Type(), x.Type()
	fb, fok := from.Underlying().(*types.Basic)
	tb, tok := to.Underlying().(*types.Basic)
	switch {
	case fok && tok && fb.Info()&types.IsInteger != 0 && tb.Info()&types.IsInteger != 0:
		flo, fhi, _ := intRange(from)
		tlo, thi, _ := intRange(to)
		if flo != nil && flo.Cmp(tlo) >= 0 && fhi.Cmp(thi) <= 0 {
			v.T = to
			fv.vals[x] = v
			return
		}
		fv.define(x, wrapTo(v, to))
	case fok && tok && fb.Kind() == types.UnsafePointer && tb.Kind() == types.Uintptr,
		fok && tok && fb.Kind() == types.Uintptr && tb.Kind() == types.UnsafePointer:
		v.T = to
		fv.vals[x] = v
	case v.Sort == SInt && fv.TE.SortOf(to) == SInt && !isFloatType(from) && !isFloatType(to):
		// pointer <-> unsafe.Pointer
		v.T = to
		fv.vals[x] = v
	case isFloatType(from) || isFloatType(to):
		r := fv.freshConst("fconv", SInt)
		fv.assume(fv.TE.rangeFact(r, to))
		fv.setVal(x, r)
	default:
		fv.abort("unsupported conversion %s -> %s at %s", from, to, fv.pos(x.Pos()))
	}
}

// ---------------------------------------------------------------------------
// interfaces

func (fv *FuncVC) ifaceFuns(t types.Type) (box, unbox, is string, sortS string) {
	m := mangle(shortTypeName(t))
	sortS = fv.TE.SortOf(t)
	box, unbox, is = "box."+m, "unbox."+m, "is."+m
	if !fv.declared[box] {
		fv.declareFun(box, []string{sortS}, SInt)
		fv.declareFun(unbox, []string{SInt}, sortS)
		fv.declareFun(is, []string{SInt}, SBool)
		q := func(s string) { fv.assumeGlobal(Term{S: s, Sort: SBool}) }
		q(fmt.Sprintf("(forall ((v!x %s)) (! (and (= (%s (%s v!x)) v!x) (%s (%s v!x)) (> (%s v!x) 0)) :pattern ((%s v!x))))", sortS, unbox, box, is, box, box, box))
		q(fmt.Sprintf("(forall ((i!x Int)) (! (=> (%s i!x) (= (%s (%s i!x)) i!x)) :pattern ((%s i!x))))", is, box, unbox, unbox))
		q(fmt.Sprintf("(not (%s 0))", is))
		// distinct dynamic types are exclusive
		for d := range fv.declared {
			if strings.HasPrefix(d, "is.") && d != is {
				q(fmt.Sprintf("(forall ((i!x Int)) (! (not (and (%s i!x) (%s i!x))) :pattern ((%s i!x) (%s i!x))))", is, d, is, d))
			}
		}
	}
	return
}

func (fv *FuncVC) box(t types.Type, v Term) Term {
	if _, ok := t.Underlying().(*types.Interface); ok {
		return v
	}
	b, _, _, _ := fv.ifaceFuns(t)
	r := mk(SInt, b, v)
	return r
}

func (fv *FuncVC) typeAssert(x *ssa.TypeAssert) {
	v := fv.val(x.X)
	if _, ok := x.AssertedType.Underlying().(*types.Interface); ok {
		// interface-to-interface assertion: value unchanged, success is opaque
		okc := fv.freshConst("implements", SBool)
		fv.implFacts(x.AssertedType, v, okc)
		if x.CommaOk {
			res := ite(okc, v, intLit(0))
			fv.tuples[x] = []Term{res, okc}
			return
		}
		fv.oblige("typeassert", "", and(okc, not(eq(v, intLit(0)))), x.Pos(), "interface assertion succeeds")
		fv.setVal(x, v)
		return
	}
	_, unbox, is, sortS := fv.ifaceFuns(x.AssertedType)
	isT := mk(SBool, is, v)
	val := mk(sortS, unbox, v)
	if x.CommaOk {
		res := ite(isT, val, fv.zeroValue(x.AssertedType))
		fv.tuples[x] = []Term{res, isT}
		return
	}
	fv.oblige("typeassert", mangle(shortTypeName(x.AssertedType)), isT, x.Pos(), "type assertion succeeds")
	fv.define(x, val)
}

// implFacts relates an interface-implements test to the trusted UF implements.<iface>(dyntype).
func (fv *FuncVC) implFacts(iface types.Type, v Term, okc Term) {
	name := "impl." + mangle(shortTypeName(iface))
	fv.declareFun(name, []string{SInt}, SBool)
	fv.assume(eq(okc, and(not(eq(v, intLit(0))), mk(SBool, name, v))))
}

func (fv *FuncVC) phi(x *ssa.Phi) {
	b := x.Block()
	var vs, es []Term
	for i, p := range b.Preds {
		if _, ok := fv.out[p]; !ok {
			continue
		}
		if fv.isBackEdge(p, b) {
			fv.abort("loop-carried phi %s (not expected in naive form)", x.Name())
		}
		vs = append(vs, fv.val(x.Edges[i]))
		es = append(es, fv.edge(p, b))
	}
	if len(vs) == 0 {
		fv.abort("phi without reachable edges")
	}
	fv.setVal(x, fv.mergeVals("phi."+x.Name(), vs, es))
}

func (fv *FuncVC) doPanic(x *ssa.Panic) {
	if w, ok := fv.FC.Opts["panics"]; ok {
		w = strings.TrimSpace(strings.TrimPrefix(strings.TrimSpace(w), "when"))
		if w == "" || w == "true" {
			fv.curReach = tFalse
			fv.markDead()
			return
		}
		e, err := ParseExpr(w)
		if err != nil {
			fv.abort("panics clause: %v", err)
		}
		// parameters denote entry values, heaps and ghosts the state at the panic
		env := fv.newEnv(fv.cur, fv.entry)
		fv.oblige("panic", "", env.boolExpr(e, fv.FC.Pos), x.Pos(), "panic only when the contract allows it")
	} else {
		fv.oblige("panic", "", tFalse, x.Pos(), "explicit panic is unreachable")
	}
	fv.markDead()
}

// markDead makes the rest of the current block unreachable.
func (fv *FuncVC) markDead() {
	d := fv.freshConst("dead", SBool)
	fv.assume(not(d))
	fv.curReach = d
	fv.reach[fv.curBlock] = d
}

func (fv *FuncVC) doDefer(x *ssa.Defer) {
	callee := x.Call.StaticCallee()
	if callee == nil {
		fv.abort("defer of dynamic call at %s", fv.pos(x.Pos()))
	}
	key := fv.W.FuncKey(callee)
	c := fv.W.CS.Funcs[key]
	if c == nil || !c.Trusted || c.Opts["opt"] != "deferok" {
		fv.abort("defer of %s: only effect-free trusted callees (opt deferok) may be deferred", key)
	}
	fv.Trusted[key] = true
	for _, a := range x.Call.Args {
		_ = fv.val(a)
	}
}
