package govc

import (
	"fmt"
	"sort"
	"strings"

	"golang.org/x/tools/go/ssa"
)

// Syntactic obligations: frame-style facts decided by scanning the SSA of the real
// code (no solver involved). A fact that holds becomes a discharged obligation
// (backend "ssa-scan"); one that fails becomes an undischargeable obligation whose
// note names the offending instruction.

func syntObligation(name, note string, ok bool, detail string) *Obligation {
	o := &Obligation{Name: "synt/" + name, Kind: "synt", Note: note, Expect: "unsat"}
	if ok {
		o.Trivial = true
	} else {
		o.Raw = "; " + strings.ReplaceAll(detail, "\n", "\n; ") + "\n(check-sat)\n"
		o.Note = note + " — VIOLATED: " + detail
	}
	return o
}

func (w *World) codecFunctions() []*ssa.Function {
	var out []*ssa.Function
	for _, path := range []string{"github.com/cloudwego/frugal/internal/reflect", "github.com/cloudwego/frugal/internal/defs"} {
		if p := w.Prog.ByPath[path]; p != nil {
			out = append(out, allFuncs(w.Prog, p)...)
		}
	}
	if p := w.Prog.ByPath["github.com/cloudwego/frugal"]; p != nil {
		for _, f := range allFuncs(w.Prog, p) {
			switch f.Name() {
			case "EncodedSize", "EncodeObject", "DecodeObject":
				out = append(out, f)
			}
		}
	}
	return out
}

var legacyFuncs = map[string]bool{
	"frugal.Pretouch": true, "frugal.NoJIT": true, "frugal.WithMaxInlineDepth": true, "frugal.WithMaxInlineILSize": true,
	"frugal.WithMaxPretouchDepth": true, "frugal.SetMaxInlineDepth": true, "frugal.SetMaxInlineILSize": true,
	"debug.GetStats": true, "opts.GetDefaultOptions": true,
	"frugal.WithMaxInlineDepth$1": true, "frugal.WithMaxInlineILSize$1": true, "frugal.WithMaxPretouchDepth$1": true,
}

// SyntChecks returns the obligations of the named syntactic check.
func (w *World) SyntChecks(name string) []*Obligation {
	var out []*Obligation
	switch name {
	case "codec_ignores_legacy_state":
		// no function of the codec reads a global of internal/opts or the process environment
		var bad []string
		for _, f := range w.codecFunctions() {
			for _, b := range f.Blocks {
				for _, in := range b.Instrs {
					for _, op := range in.Operands(nil) {
						if g, ok := (*op).(*ssa.Global); ok && g.Pkg != nil && g.Pkg.Pkg.Path() == "github.com/cloudwego/frugal/internal/opts" {
							bad = append(bad, fmt.Sprintf("%s references opts.%s", w.FuncKey(f), g.Name()))
						}
					}
					if c, ok := in.(ssa.CallInstruction); ok {
						if callee := c.Common().StaticCallee(); callee != nil && callee.Pkg != nil && callee.Pkg.Pkg.Path() == "os" {
							switch callee.Name() {
							case "Getenv", "LookupEnv", "Environ":
								bad = append(bad, fmt.Sprintf("%s calls os.%s", w.FuncKey(f), callee.Name()))
							}
						}
						if callee := c.Common().StaticCallee(); callee != nil && legacyFuncs[w.FuncKey(callee)] {
							bad = append(bad, fmt.Sprintf("%s calls legacy control %s", w.FuncKey(f), w.FuncKey(callee)))
						}
					}
				}
			}
		}
		sort.Strings(bad)
		out = append(out, syntObligation("c17_codec_ignores_legacy_state", fmt.Sprintf("no codec function (%d scanned) references internal/opts globals, the environment or a legacy control", len(w.codecFunctions())), len(bad) == 0, strings.Join(bad, "; ")))
	case "legacy_functions_are_leaf":
		// legacy controls call nothing, store nothing, read no global
		var keys []string
		for k := range legacyFuncs {
			keys = append(keys, k)
		}
		sort.Strings(keys)
		for _, k := range keys {
			f := w.FuncByKey[k]
			if f == nil {
				out = append(out, syntObligation("c17_leaf:"+k, "legacy control exists", false, "function not found"))
				continue
			}
			var bad []string
			for _, b := range f.Blocks {
				for _, in := range b.Instrs {
					switch x := in.(type) {
					case ssa.CallInstruction:
						if bi, ok := x.Common().Value.(*ssa.Builtin); ok && bi.Name() == "ssa:deferstack" {
							continue
						}
						bad = append(bad, "calls "+x.Common().String())
					case *ssa.Store:
						if a := rootAlloc(x.Addr); a == nil {
							bad = append(bad, "stores through "+x.Addr.Name())
						}
					case *ssa.MapUpdate, *ssa.Send, *ssa.Go, *ssa.Defer:
						bad = append(bad, fmt.Sprintf("%T", in))
					}
					for _, op := range in.Operands(nil) {
						if _, ok := (*op).(*ssa.Global); ok {
							bad = append(bad, "references a global")
						}
					}
				}
			}
			out = append(out, syntObligation("c17_leaf:"+k, "legacy control "+k+" calls nothing, stores only to its own locals and touches no global", len(bad) == 0, strings.Join(bad, "; ")))
		}
	case "initdefault_only_for_nested":
		// iInitDefault.InitDefault is invoked from decodeType only (never by the top-level
		// entry points or the struct loop itself), and the interface value is used for nothing else
		var bad []string
		n := 0
		for _, f := range w.codecFunctions() {
			for _, b := range f.Blocks {
				for _, in := range b.Instrs {
					c, ok := in.(ssa.CallInstruction)
					if !ok || !c.Common().IsInvoke() || c.Common().Method.Name() != "InitDefault" {
						continue
					}
					if strings.HasPrefix(w.FuncKey(f), "defs.") {
						// defs.DoResolveFields calls InitDefault on a value it has just created
						// with reflect.New to read the declared defaults: not a destination
						continue
					}
					n++
					if w.FuncKey(f) != "reflect.(*tDecoder).decodeType" {
						bad = append(bad, fmt.Sprintf("%s invokes InitDefault", w.FuncKey(f)))
					}
				}
			}
		}
		if n == 0 {
			bad = append(bad, "no InitDefault call found at all")
		}
		out = append(out, syntObligation("c10_initdefault_only_for_nested", "InitDefault is invoked only in decodeType's struct branch (the top-level destination is never re-initialised)", len(bad) == 0, strings.Join(bad, "; ")))
	default:
		out = append(out, syntObligation(name, "unknown syntactic check", false, "no such check"))
	}
	return out
}

func rootAlloc(v ssa.Value) *ssa.Alloc {
	for {
		switch x := v.(type) {
		case *ssa.Alloc:
			return x
		case *ssa.FieldAddr:
			v = x.X
		case *ssa.IndexAddr:
			v = x.X
		default:
			return nil
		}
	}
}
