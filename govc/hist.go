package govc

import (
	"fmt"
	"sort"

	"golang.org/x/tools/go/ssa"
)

func cmdHist(args []string) int {
	p, err := Load(RepoDir, "./...")
	if err != nil {
		fmt.Println(err)
		return 2
	}
	h := map[string]int{}
	for _, path := range args {
		for _, f := range allFuncs(p, p.ByPath[path]) {
			for _, b := range f.Blocks {
				for _, in := range b.Instrs {
					k := fmt.Sprintf("%T", in)
					switch x := in.(type) {
					case *ssa.Call:
						if x.Call.IsInvoke() {
							k += " invoke " + x.Call.Method.FullName()
						} else if c := x.Call.StaticCallee(); c != nil {
							if c.Pkg == nil || c.Pkg.Pkg.Path() != path {
								k += " ext " + c.String()
							}
						} else if bi, ok := x.Call.Value.(*ssa.Builtin); ok {
							k += " builtin " + bi.Name()
						} else {
							k += " dynamic"
						}
					case *ssa.BinOp:
						k += " " + x.Op.String()
					case *ssa.UnOp:
						k += " " + x.Op.String()
					case *ssa.Convert:
						k += " " + x.X.Type().Underlying().String() + " -> " + x.Type().Underlying().String()
					}
					h[k]++
				}
			}
		}
	}
	var ks []string
	for k := range h {
		ks = append(ks, k)
	}
	sort.Strings(ks)
	for _, k := range ks {
		fmt.Printf("%5d %s\n", h[k], k)
	}
	return 0
}
