package govc

import (
	"encoding/json"
	"flag"
	"fmt"
	"os"
	"path/filepath"
	"regexp"
	"runtime"
	"sort"
	"strconv"
	"strings"
	"time"
)

// PropSpec maps a property of properties.jsonl to the obligations that decide it.
type PropSpec struct {
	ID           string   `json:"id"`
	Functions    []string `json:"functions"`     // functions under contract whose obligations belong to the property
	Lemmas       []string `json:"lemmas"`        // lemma names (proved) the property's argument uses
	Kinds        []string `json:"kinds"`         // obligation kinds included (prefix match); empty = all
	UntaggedFrom []string `json:"untagged_from"` // if set: untagged obligations are taken from these functions only
	Tag          string   `json:"tag"`           // label tag (e.g. "c05"): labelled obligations of other properties are excluded
	Assumptions  []string `json:"assumptions"`   // names from DESIGN.md section 5
	Twins        []Twin   `json:"twins"`         // must-fail variants (vacuity guards)
	Bounded      []string `json:"bounded"`       // functions only checked with a bound (never counted as proved)
	Note         string   `json:"note"`
	Syntactic    []string `json:"syntactic"` // names of syntactic discipline checks to run (see synt.go)
	Rows         []string `json:"rows"`      // registration tables whose rows are obligations (regtab.go)
	Pipeline     bool     `json:"pipeline"`  // the function list is a union over the pipeline the property depends on: a function contributing no obligation is skipped, not an error
	Also         []string `json:"also"`      // substrings of obligation names carrying another property's tag that this property relies on too
}

// Twin is a must-fail variant: the named function is regenerated with one
// precondition dropped and the named obligation must stop being provable.
type Twin struct {
	Func         string `json:"func"`
	DropRequires int    `json:"drop_requires"` // index of the requires clause to drop (-1: none)
	DropLabel    string `json:"drop_label"`    // label of the requires / invariant clause to drop
	DropInv      string `json:"drop_inv"`      // "loop:index" of an invariant to drop
	Lemma        string `json:"lemma"`         // or: a lemma whose guard conjunct is dropped
	Obligation   string `json:"obligation"`    // substring of the obligation expected to fail
	Why          string `json:"why"`
}

// Finding is an entry of known_findings.json.
type Finding struct {
	Property   string `json:"property"`
	Obligation string `json:"obligation"` // regexp on the obligation name
	What       string `json:"what"`
	Status     string `json:"status"` // known | fixed
	Commit     string `json:"commit,omitempty"`
}

var propTag = regexp.MustCompile(`(?:^|[:.#])(c[0-9]{2,3})_`)

func loadProps(dir string) (map[string]*PropSpec, error) {
	data, err := os.ReadFile(filepath.Join(dir, "props.json"))
	if err != nil {
		return nil, err
	}
	var list []*PropSpec
	if err := json.Unmarshal(data, &list); err != nil {
		return nil, fmt.Errorf("props.json: %v", err)
	}
	m := map[string]*PropSpec{}
	for _, p := range list {
		m[p.ID] = p
	}
	return m, nil
}

// expandGlobs replaces entries ending in '*' by the matching functions under contract.
func expandGlobs(names []string, cs *Contracts) []string {
	var out []string
	for _, n := range names {
		if !strings.HasSuffix(n, "*") {
			out = append(out, n)
			continue
		}
		pre := strings.TrimSuffix(n, "*")
		for _, k := range cs.Order {
			c := cs.Funcs[k]
			if c != nil && (!c.Trusted || cs.Body[k] != nil) && !c.Dyn && strings.HasPrefix(k, pre) {
				out = append(out, k)
			}
		}
	}
	return out
}

func loadFindings(dir string) ([]Finding, error) {
	data, err := os.ReadFile(filepath.Join(dir, "known_findings.json"))
	if err != nil {
		if os.IsNotExist(err) {
			return nil, nil
		}
		return nil, err
	}
	var fs []Finding
	if err := json.Unmarshal(data, &fs); err != nil {
		return nil, fmt.Errorf("known_findings.json: %v", err)
	}
	return fs, nil
}

func (ps *PropSpec) includes(o *Obligation) bool {
	// obligations whose label carries a property tag (cNN_) belong to that property only
	rest := o.Name
	if i := strings.Index(rest, "/"); i >= 0 {
		rest = rest[i+1:]
	}
	if m := propTag.FindStringSubmatch(rest); m != nil {
		if ps.Tag != "" && m[1] == ps.Tag {
			return true
		}
		for _, a := range ps.Also {
			if strings.Contains(o.Name, a) {
				return true
			}
		}
		return false
	}
	// untagged obligations: optionally only from selected functions
	if len(ps.UntaggedFrom) > 0 {
		ok := false
		for _, f := range ps.UntaggedFrom {
			if o.Func != nil && o.Func.Key == f {
				ok = true
			}
		}
		if !ok {
			return false
		}
	}
	// untagged obligations: filtered by kind (empty list = all)
	if len(ps.Kinds) == 0 {
		return true
	}
	for _, k := range ps.Kinds {
		if k != "" && strings.HasPrefix(o.Kind, k) {
			return true
		}
	}
	return false
}

// Evidence mirrors EVIDENCE.schema.json.
type Evidence struct {
	PropertyID  string                 `json:"property_id"`
	Tier        string                 `json:"tier"`
	Seed        int                    `json:"seed"`
	Level       string                 `json:"level"`
	Coverage    map[string]interface{} `json:"coverage"`
	Assumptions []string               `json:"assumptions"`
	WallS       float64                `json:"wall_s"`
	Violations  int                    `json:"violations"`
}

var assumptionText = map[string]string{
	"A-GO":          "A-GO: go/ssa's lowering of the source and GoVC's encoding of each SSA instruction agree with what gc compiles; struct layout = gc/amd64 sizes",
	"A-INT":         "A-INT: integers are SMT Int with machine ranges as facts; every signed operation carries a no-overflow obligation; unsigned arithmetic and conversions wrap explicitly; bit operations outside the supported patterns are uninterpreted except for the axioms justified by QF_BV lemmas",
	"A-ADDR":        "A-ADDR/A-SIZE: input buffers are at most 2^40 bytes, a single in-memory element at most 64 KiB, allocation requests at most 2^58 bytes (keeps products inside int64)",
	"A-MALLOC":      "A-MALLOC: runtime.mallocgc returns a fresh 8-aligned block above the allocation watermark, zeroed when asked or typed; memory stays valid while reachable",
	"A-POOL":        "A-POOL: sync.Pool.Get returns New() or a previously Put object in arbitrary state, held by nobody else (modelled as fresh memory)",
	"A-RANGE":       "A-RANGE: ranging an unmodified Go map visits each entry exactly once, maplen entries in all",
	"A-REFLECT":     "A-REFLECT: reflect.* functions used by the codec behave as documented (trusted contracts in /verif/trusted/reflect.spec)",
	"A-SKIP":        "A-SKIP: skipping goes through internal/reflect.skipValue, which recovers from panics of gopkg's thrift.Binary.Skip (v0.2.0 indexes a table with the type byte as int8 and panics for type bytes >= 0x80); assumed: err==nil => 0<n<=len(b), Skip never reads outside b and writes nothing",
	"A-STD":         "A-STD: fmt/errors/strings.Split/strings.TrimSpace/strconv/sort/unicode.IsSpace behave as documented (trusted contracts in /verif/trusted/deps.spec; Split and TrimSpace results are uninterpreted functions of their arguments)",
	"A-BOOL":        "A-BOOL: a Go bool in memory is the byte 0 or 1",
	"A-INITDEFAULT": "A-INITDEFAULT: a user InitDefault() writes only inside its receiver and is deterministic",
	"A-REGION":      "A-REGION: descriptors, input buffer, destination objects and scratch objects are pairwise disjoint on entry",
	"A-HACK":        "A-HACK: the layout hacks of hack.go (rvWithPtr, rvPtr, rvTypePtr, rtTypePtr, updateIface, mapIter, maplen, sliceHeader.Zero) do what their comments say (frugal validates them at init); given assumed contracts",
	"A-APPEND":      "A-APPEND: where the output buffer is treated as an abstract byte sequence, Go's append is sequence extension; its concrete reading (same array while the result fits the capacity, a fresh array otherwise; writes only into the spare capacity [ptr+len,ptr+cap) or fresh memory) is assumed at the boundary to concrete callers, and the spare capacity is assumed disjoint from the value being encoded",
	"A-SIZE":        "A-SIZE: containers hold fewer than 2^31 elements (the count on the wire is the 32-bit truncation of the live length); a single in-memory element is at most 64 KiB",
	"A-INIT":        "A-INIT: package-level variables hold what their initialisers assign (non-nil maps, errors.New values) and are not reassigned",
	"A-DEFS":        "A-DEFS: callers of defs.ParseType/DoResolveFields assume the recursive predicate wfDT and the field-list facts of /verif/trusted/deps.spec; the parser and the field loop themselves are proved against the one-level versions of these facts (body contracts in internal/defs/contracts_verif.go)",
	"A-KEY":         "A-KEY: defs.Type.String() together with the Go type determines tag, wire type and enum-ness of a parsed type (and a rank that strictly decreases towards children)",
	"A-COMPOSE":     "A-COMPOSE: the step from per-function contracts to the whole-message statement is a structural induction over the descriptor tree written in DESIGN.md, not mechanised",
	"A-WF":          "A-WF: users of descriptors assume the uninterpreted predicates wfTshape/wfT/wfSD/wfF with one-way axioms (contracts_verif.go); the constructors (newTType, fromDefsField(s), newStructDesc, update*AppendFunc) are proved against concrete one-level postconditions (body contracts), and the step from 'proved at construction' to 'holds when the codec runs' rests on descriptors being immutable afterwards",
	"A-SOLVER":      "A-SOLVER: an 'unsat' answer of z3 5.1.0 / z3 4.8.12 / cvc5 1.0.3 is correct (recursive definitions are axiomatised, not define-fun-rec, after a spurious unsat was observed; every function's assumption set is checked not to be refutable on every run)",
}

func cmdProp(args []string) int {
	fs := flag.NewFlagSet("prop", flag.ExitOnError)
	id := fs.String("p", "", "property id")
	tier := fs.String("tier", "", "quick | thorough")
	verbose := fs.Bool("v", false, "verbose")
	fs.Parse(args)
	if *tier == "" {
		*tier = os.Getenv("VERIF_TIER")
	}
	if *tier == "" {
		*tier = "quick"
	}
	seed, _ := strconv.Atoi(os.Getenv("VERIF_SEED"))
	root := filepath.Dir(TrustedDir)
	t0 := time.Now()
	props, err := loadProps(root)
	if err != nil {
		fmt.Fprintln(os.Stderr, err)
		return 2
	}
	ps := props[*id]
	if ps == nil {
		fmt.Fprintf(os.Stderr, "property %s is not claimed (props.json)\n", *id)
		return 2
	}
	findings, err := loadFindings(root)
	if err != nil {
		fmt.Fprintln(os.Stderr, err)
		return 2
	}
	p, err := Load(RepoDir, "./...")
	if err != nil {
		fmt.Fprintln(os.Stderr, "load:", err)
		return 2
	}
	cs, err := LoadContracts(RepoDir)
	if err != nil {
		// a contract that no longer parses is a broken proof: report as violation without input
		return reportGenerationFailure(ps, *tier, seed, "contracts: "+err.Error(), t0)
	}
	w := NewWorld(p, cs)
	ps.Functions = expandGlobs(ps.Functions, cs)
	ps.UntaggedFrom = expandGlobs(ps.UntaggedFrom, cs)
	timeout := 20000
	all := false
	if *tier == "thorough" {
		timeout = 120000
		all = true
	}

	var obls []*Obligation
	var fvs []*FuncVC
	var genErrors []string
	trusted := map[string]bool{}
	usedAx := map[string]bool{}
	tables := map[string]bool{}
	nFuncObl := map[string]int{}
	for _, k := range ps.Functions {
		fv, err := w.Generate(k)
		if err != nil {
			genErrors = append(genErrors, fmt.Sprintf("%s: %v", k, err))
			continue
		}
		if len(fv.Errors) > 0 {
			genErrors = append(genErrors, fmt.Sprintf("%s: out of reach: %s", k, strings.Join(fv.Errors, "; ")))
			continue
		}
		fvs = append(fvs, fv)
		for t := range fv.Trusted {
			trusted[t] = true
		}
		for a := range fv.usedAxioms {
			usedAx[a] = true
		}
		for t := range fv.tablesUsed {
			tables[t] = true
		}
		for _, o := range fv.Obls {
			if ps.includes(o) {
				obls = append(obls, o)
				nFuncObl[k]++
			}
		}
		if nFuncObl[k] == 0 && !ps.Pipeline {
			genErrors = append(genErrors, fmt.Sprintf("%s: no obligation generated (vacuity guard)", k))
		}
	}
	// lemmas
	lemmaSet := map[string]bool{}
	for _, l := range ps.Lemmas {
		lemmaSet[l] = true
	}
	for _, ax := range cs.Axioms {
		if !ax.Lemma {
			continue
		}
		if !(lemmaSet[ax.Name] || usedAx[ax.Name]) {
			continue
		}
		delete(lemmaSet, ax.Name)
		lv := w.LemmaVC(ax)
		if len(lv.Errors) > 0 {
			genErrors = append(genErrors, fmt.Sprintf("lemma %s: %s", ax.Name, strings.Join(lv.Errors, "; ")))
			continue
		}
		obls = append(obls, lv.Obls...)
	}
	for l := range lemmaSet {
		genErrors = append(genErrors, "lemma "+l+" not found")
	}
	for _, o := range w.BVLemmas() {
		if usedAx[strings.TrimPrefix(o.Name, "bvlemma/")] {
			obls = append(obls, o)
		}
	}
	for _, sc := range ps.Syntactic {
		obls = append(obls, w.SyntChecks(sc)...)
	}
	for _, tb := range ps.Rows {
		ro, errs := w.RowObligations(tb)
		obls = append(obls, ro...)
		genErrors = append(genErrors, errs...)
	}
	// the word-level memory axioms used by every VC are proved from their byte-level definitions
	obls = append(obls, MemLemmas()...)
	// vacuity guard: each function's assumption set must not be refutable
	var guards []*Obligation
	for _, fv := range fvs {
		guards = append(guards, fv.consistencyGuard())
	}
	// must-fail twins
	var twinObls []*Obligation
	var twinOf []int
	for ti, tw := range ps.Twins {
		os2, err := w.twinObligation(tw)
		if err != nil {
			genErrors = append(genErrors, "twin "+tw.Func+tw.Lemma+"/"+tw.Obligation+": "+err.Error())
			continue
		}
		for _, o := range os2 {
			twinObls = append(twinObls, o)
			twinOf = append(twinOf, ti)
		}
	}

	if len(genErrors) > 0 {
		return reportGenerationFailure(ps, *tier, seed, strings.Join(genErrors, "\n"), t0)
	}

	results := DischargeAll(obls, timeout, all, runtime.NumCPU())
	// second chance for undecided obligations: solver time-outs under machine load must not
	// turn into alarms; a retry runs alone with a longer limit.
	var retry []*Obligation
	var retryIdx []int
	for i, r := range results {
		if r.Status != "unsat" && r.Status != "sat" && r.Status != "disagree" {
			// an obligation recorded as an open known finding is expected to stay undecided: no second round
			isKnown := false
			for _, f := range findings {
				if f.Property == ps.ID && f.Status == "known" {
					if ok, _ := regexp.MatchString(f.Obligation, r.Obl.Name); ok {
						isKnown = true
					}
				}
			}
			if isKnown {
				continue
			}
			retry = append(retry, r.Obl)
			retryIdx = append(retryIdx, i)
		}
	}
	if len(retry) > 0 && len(retry) <= 40 {
		ExtraSeeds = true
		rr := DischargeAll(retry, timeout*3, all, 3)
		ExtraSeeds = false
		for k, r := range rr {
			r.Tried = append(results[retryIdx[k]].Tried, append([]string{"retry:"}, r.Tried...)...)
			results[retryIdx[k]] = r
		}
	}
	gres := DischargeAll(guards, 3000, false, runtime.NumCPU())
	tres := DischargeAll(twinObls, 10000, false, runtime.NumCPU())

	// engine faults
	for _, r := range gres {
		if r.Status == "unsat" {
			fmt.Printf("ENGINE-FAULT: assumptions of %s are contradictory (vacuous proof) — %s\n", r.Obl.Func.Key, r.Obl.Name)
			return 2
		}
	}
	twinFail := 0
	var twinReport []map[string]string
	for ti, tw := range ps.Twins {
		st := "STILL-PROVABLE"
		name, ans := "", ""
		for i, r := range tres {
			if twinOf[i] != ti {
				continue
			}
			if name == "" {
				name, ans = r.Obl.Name, r.Status
			}
			if r.Status != "unsat" {
				st = "fails-as-expected"
				name, ans = r.Obl.Name, r.Status
				break
			}
		}
		if st == "STILL-PROVABLE" {
			twinFail++
		}
		twinReport = append(twinReport, map[string]string{"twin": tw.Func + tw.Lemma + " " + tw.Why, "obligation": name, "solver_answer": ans, "result": st})
	}
	if twinFail > 0 {
		// a must-fail twin that is provable means the dropped assumption is not needed by the
		// current code: a vacuity warning (recorded in evidence); fatal only in the thorough tier.
		fmt.Printf("WARNING: %d must-fail twin(s) provable without the dropped assumption\n", twinFail)
		for _, t := range twinReport {
			if t["result"] == "STILL-PROVABLE" {
				fmt.Printf("    %s %s\n", t["twin"], t["obligation"])
			}
		}
		if *tier == "thorough" {
			fmt.Println("ENGINE-FAULT: vacuity guard failed")
			return 2
		}
	}

	discharged := 0
	solverTime := map[string]float64{}
	bySolver := map[string]int{}
	var failed []*Result
	for _, r := range results {
		if r.Status == "disagree" {
			fmt.Printf("ENGINE-FAULT: solvers disagree on %s\n", r.Obl.Name)
			return 2
		}
		if r.Status == "unsat" {
			discharged++
			bySolver[r.Solver]++
			solverTime[r.Solver] += r.Time
		} else {
			failed = append(failed, r)
		}
		if *verbose {
			fmt.Printf("    %-8s %-70s %5.2fs %s\n", r.Status, r.Obl.Name, r.Time, r.Obl.Pos)
		}
	}
	// violations vs known findings
	violations := 0
	var vlist []map[string]string
	var knownList []map[string]string
	for _, r := range failed {
		known := false
		for _, f := range findings {
			if f.Property != ps.ID || f.Status != "known" {
				continue
			}
			if ok, _ := regexp.MatchString(f.Obligation, r.Obl.Name); ok {
				fmt.Printf("KNOWN-FINDING: property=%s %s (%s)\n", ps.ID, f.What, r.Obl.Name)
				known = true
				knownList = append(knownList, map[string]string{"obligation": r.Obl.Name, "status": r.Status, "what": f.What})
				break
			}
		}
		if known {
			continue
		}
		violations++
		dir, reproduced := writeReplay(w, ps, r)
		line := fmt.Sprintf("VIOLATION property=%s replay=%s", ps.ID, dir)
		if !reproduced {
			line += " no-failing-input-found"
		}
		fmt.Println(line)
		fmt.Printf("    obligation %s [%s] at %s: %s\n", r.Obl.Name, r.Status, r.Obl.Pos, r.Obl.Note)
		vlist = append(vlist, map[string]string{"obligation": r.Obl.Name, "status": r.Status, "pos": r.Obl.Pos, "replay": dir})
	}

	// evidence
	var samples []map[string]interface{}
	idx := seededOrder(len(results), seed)
	for _, i := range idx {
		if len(samples) >= 8 {
			break
		}
		r := results[i]
		samples = append(samples, map[string]interface{}{
			"obligation": r.Obl.Name, "kind": r.Obl.Kind, "pos": r.Obl.Pos, "what": r.Obl.Note,
			"status": r.Status, "solver": r.Solver, "time_s": round3(r.Time), "query_bytes": len(r.Obl.Query(false)),
		})
	}
	var tb []string
	for t := range trusted {
		tb = append(tb, "trusted contract: "+t)
	}
	sort.Strings(tb)
	var axs []string
	for a := range usedAx {
		kind := "axiom (definition of a spec function, assumed)"
		for _, ax := range cs.Axioms {
			if ax.Name == a && ax.Lemma {
				kind = "lemma (proved on this run)"
			}
		}
		axs = append(axs, a+": "+kind)
	}
	sort.Strings(axs)
	var assumptions []string
	for _, a := range append([]string{"A-GO", "A-INT", "A-SOLVER"}, ps.Assumptions...) {
		if t, ok := assumptionText[a]; ok {
			assumptions = append(assumptions, t)
		} else {
			assumptions = append(assumptions, a)
		}
	}
	assumptions = append(assumptions, tb...)
	for _, fv := range fvs {
		if fv.MathInt {
			assumptions = append(assumptions, "A-MATHINT: signed additions/multiplications of "+fv.Key+" are treated as mathematical (no overflow obligation; sizes stay far below 2^63)")
		}
	}
	var funcs []map[string]interface{}
	for _, k := range ps.Functions {
		funcs = append(funcs, map[string]interface{}{"function": k, "obligations": nFuncObl[k]})
	}
	var tbl []string
	for t := range tables {
		tbl = append(tbl, t)
	}
	sort.Strings(tbl)
	ev := Evidence{PropertyID: ps.ID, Tier: *tier, Seed: seed, Level: "proof", WallS: round3(time.Since(t0).Seconds()), Violations: violations,
		Assumptions: assumptions,
		Coverage: map[string]interface{}{
			// the proof claim covers every obligation except those recorded as open known findings, which
			// are checked on every run, expected to fail and listed separately
			"obligations":              len(results) - len(knownList),
			"discharged":               discharged,
			"known_findings_checked":   knownList,
			"checker_cmd":              fmt.Sprintf("bin/govc prop -p %s -tier %s (VC generation over go/ssa of /repo working tree; solvers z3-new 5.1.0, z3 4.8.12, cvc5 1.0.3; per-obligation timeout %d ms)", ps.ID, *tier, timeout),
			"trusted_base":             tb,
			"samples":                  samples,
			"functions_under_contract": funcs,
			"discharged_by_solver":     bySolver,
			"solver_time_s":            roundMap(solverTime),
			"axioms_and_lemmas_used":   axs,
			"tables_read_from_init":    tbl,
			"vacuity_guards":           map[string]interface{}{"assumption_sets_checked_not_refutable": len(gres), "must_fail_twins": twinReport},
			"bounded_stand_ins":        ps.Bounded,
			"violations":               vlist,
			"note":                     ps.Note,
		}}
	os.MkdirAll(evidenceDir(root), 0o755)
	data, _ := json.MarshalIndent(ev, "", " ")
	os.WriteFile(filepath.Join(evidenceDir(root), ps.ID+".json"), data, 0o644)
	sort.Slice(results, func(i, j int) bool { return results[i].Time > results[j].Time })
	for i := 0; i < 3 && i < len(results); i++ {
		fmt.Printf("    slowest: %6.2fs %s [%s]\n", results[i].Time, results[i].Obl.Name, results[i].Status)
	}
	kf := ""
	if len(knownList) > 0 {
		kf = fmt.Sprintf(" (+%d open known finding(s), checked and still failing)", len(knownList))
	}
	fmt.Printf("property %s tier %s: %d/%d obligations discharged%s over %d functions, %d violation(s), %.1fs\n", ps.ID, *tier, discharged, len(results)-len(knownList), kf, len(ps.Functions), violations, time.Since(t0).Seconds())
	if violations > 0 {
		return 1
	}
	return 0
}

func round3(f float64) float64 { return float64(int(f*1000+0.5)) / 1000 }
func roundMap(m map[string]float64) map[string]float64 {
	o := map[string]float64{}
	for k, v := range m {
		o[k] = round3(v)
	}
	return o
}

func seededOrder(n, seed int) []int {
	idx := make([]int, n)
	for i := range idx {
		idx[i] = i
	}
	x := uint64(seed)*2862933555777941757 + 3037000493
	for i := n - 1; i > 0; i-- {
		x = x*6364136223846793005 + 1442695040888963407
		j := int((x >> 33) % uint64(i+1))
		idx[i], idx[j] = idx[j], idx[i]
	}
	return idx
}

// reportGenerationFailure: the obligations could not even be generated (a function
// left the supported subset, a contract refers to a variable that no longer exists...).
// On the unchanged tree everything generates, so this is a change that broke the proof.
func reportGenerationFailure(ps *PropSpec, tier string, seed int, msg string, t0 time.Time) int {
	root := filepath.Dir(TrustedDir)
	dir := filepath.Join(OutDir, "replay", ps.ID, "generation")
	os.MkdirAll(dir, 0o755)
	os.WriteFile(filepath.Join(dir, "obligation.txt"), []byte("obligations of property "+ps.ID+" could not be generated from the current tree:\n"+msg+"\n"), 0o644)
	fmt.Printf("VIOLATION property=%s replay=%s no-failing-input-found\n", ps.ID, dir)
	for _, l := range strings.Split(msg, "\n") {
		fmt.Printf("    %s\n", l)
	}
	ev := Evidence{PropertyID: ps.ID, Tier: tier, Seed: seed, Level: "proof", WallS: round3(time.Since(t0).Seconds()), Violations: 1,
		Coverage: map[string]interface{}{"obligations": 1, "discharged": 0, "checker_cmd": "bin/govc prop -p " + ps.ID, "trusted_base": []string{},
			"samples": []map[string]string{{"generation_failure": msg}}}}
	os.MkdirAll(evidenceDir(root), 0o755)
	data, _ := json.MarshalIndent(ev, "", " ")
	os.WriteFile(filepath.Join(evidenceDir(root), ps.ID+".json"), data, 0o644)
	return 1
}

// consistencyGuard: the whole assumption set of a function (requires, axioms, callee
// postconditions, invariants) together with entry reachability must not be refutable.
func (fv *FuncVC) consistencyGuard() *Obligation {
	return &Obligation{Name: fv.Key + "/guard:consistent", Kind: "guard", Cond: tFalse, Reach: tTrue, NPre: len(fv.asserts), Func: fv, Expect: "sat",
		Note: "vacuity guard: assumptions are not contradictory (expected: not unsat)"}
}

// twinObligation regenerates a function with one precondition dropped and returns
// the named obligation, which is expected to be no longer provable.
func (w *World) twinObligation(tw Twin) ([]*Obligation, error) {
	if tw.Lemma != "" {
		for _, ax := range w.CS.Axioms {
			if ax.Name == tw.Lemma {
				// drop the first conjunct of the antecedent of the (quantified) implication
				e2, ok := dropFirstGuard(ax.E)
				if !ok {
					return nil, fmt.Errorf("lemma %s has no guard to drop", tw.Lemma)
				}
				c := *ax
				c.E = e2
				c.Name = ax.Name
				lv := w.LemmaVC(&c)
				if len(lv.Errors) > 0 || len(lv.Obls) == 0 {
					return nil, fmt.Errorf("twin lemma generation failed: %v", lv.Errors)
				}
				for _, o := range lv.Obls {
					o.Name = "twin:" + o.Name
				}
				return lv.Obls, nil
			}
		}
		return nil, fmt.Errorf("no lemma %s", tw.Lemma)
	}
	fc := w.CS.Funcs[tw.Func]
	if b := w.CS.Body[tw.Func]; b != nil {
		fc = b
	}
	if fc == nil {
		return nil, fmt.Errorf("no contract for %s", tw.Func)
	}
	saved := *fc
	defer func() { *fc = saved }()
	if tw.DropLabel != "" {
		var rs, invs []Clause
		found := false
		for _, c := range saved.Requires {
			if c.Name == tw.DropLabel {
				found = true
				continue
			}
			rs = append(rs, c)
		}
		for _, c := range saved.Invs {
			if c.Name == tw.DropLabel {
				found = true
				continue
			}
			invs = append(invs, c)
		}
		if !found {
			return nil, fmt.Errorf("no clause labelled %s", tw.DropLabel)
		}
		fc.Requires, fc.Invs = rs, invs
	} else if tw.DropRequires >= 0 && tw.DropInv == "" {
		if tw.DropRequires >= len(fc.Requires) {
			return nil, fmt.Errorf("no requires #%d", tw.DropRequires)
		}
		var rs []Clause
		for i, c := range saved.Requires {
			if i != tw.DropRequires {
				rs = append(rs, c)
			}
		}
		fc.Requires = rs
	}
	if tw.DropInv != "" {
		parts := strings.SplitN(tw.DropInv, ":", 2)
		lp, _ := strconv.Atoi(parts[0])
		ix, _ := strconv.Atoi(parts[1])
		var invs []Clause
		k := 0
		for _, c := range saved.Invs {
			if c.Loop == lp {
				if k == ix {
					k++
					continue
				}
				k++
			}
			invs = append(invs, c)
		}
		fc.Invs = invs
	}
	fv, err := w.Generate(tw.Func)
	if err != nil {
		return nil, err
	}
	if len(fv.Errors) > 0 {
		return nil, fmt.Errorf("%v", fv.Errors)
	}
	var out []*Obligation
	for _, o := range fv.Obls {
		if strings.Contains(o.Name, tw.Obligation) {
			o.Name = "twin:" + o.Name
			out = append(out, o)
		}
	}
	if len(out) == 0 {
		return nil, fmt.Errorf("no obligation matching %q", tw.Obligation)
	}
	return out, nil
}

func dropFirstGuard(e Expr) (Expr, bool) {
	switch n := e.(type) {
	case EQuant:
		b, ok := dropFirstGuard(n.Body)
		if !ok {
			return e, false
		}
		return EQuant{n.Forall, n.Vars, n.Triggers, b}, true
	case EBinary:
		if n.Op == "==>" {
			if a, ok := n.X.(EBinary); ok && a.Op == "&&" {
				// drop the leftmost conjunct
				x := n.X
				var drop func(e Expr) Expr
				drop = func(e Expr) Expr {
					if b, ok := e.(EBinary); ok && b.Op == "&&" {
						if lb, ok := b.X.(EBinary); ok && lb.Op == "&&" {
							return EBinary{"&&", drop(b.X), b.Y}
						}
						return b.Y
					}
					return e
				}
				x = drop(x)
				return EBinary{"==>", x, n.Y}, true
			}
			return n.Y, true
		}
	}
	return e, false
}

func evidenceDir(root string) string {
	if EvidenceDir != "" {
		return EvidenceDir
	}
	return filepath.Join(root, "evidence")
}
