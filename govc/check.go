package govc

import (
	"flag"
	"fmt"
	"os"
	"path/filepath"
	"runtime"
	"sort"
	"strings"
)

// TrustedDir holds assumed contracts for code outside /repo.
var TrustedDir = "/verif/trusted"

// LoadContracts reads contract files from /repo (contracts_verif.go) and /verif/trusted.
func LoadContracts(repo string) (*Contracts, error) {
	cs := NewContracts()
	dirs := map[string]string{
		"internal/reflect": "reflect",
		"internal/defs":    "defs",
		"internal/opts":    "opts",
		".":                "frugal",
		"debug":            "debug",
	}
	var keys []string
	for d := range dirs {
		keys = append(keys, d)
	}
	// inner packages first: macros and constants are expanded at parse time, and the packages
	// further out refer to those of the packages they import
	sort.Slice(keys, func(i, j int) bool {
		di, dj := strings.Count(keys[i], "/"), strings.Count(keys[j], "/")
		if keys[i] == "." {
			di = -1
		}
		if keys[j] == "." {
			dj = -1
		}
		if di != dj {
			return di > dj
		}
		return keys[i] < keys[j]
	})
	for _, d := range keys {
		ms, _ := filepath.Glob(filepath.Join(repo, d, "contracts*_verif.go"))
		sort.Strings(ms)
		for _, m := range ms {
			if err := cs.ParseContractFile(m, dirs[d]); err != nil {
				return nil, err
			}
		}
	}
	cms, _ := filepath.Glob(filepath.Join(filepath.Dir(TrustedDir), "contracts", "*.spec"))
	sort.Strings(cms)
	for _, m := range cms {
		if err := cs.ParseContractFile(m, strings.TrimSuffix(filepath.Base(m), ".spec")); err != nil {
			return nil, err
		}
	}
	defer func() {
		for _, n := range strings.Fields(cs.Consts["opaquetypes"]) {
			OpaqueTypes[n] = true
		}
	}()
	ms, _ := filepath.Glob(filepath.Join(TrustedDir, "*.spec"))
	sort.Strings(ms)
	for _, m := range ms {
		if err := cs.ParseContractFile(m, "trusted"); err != nil {
			return nil, err
		}
	}
	return cs, nil
}

// finish translates the axioms relevant to this function (fixpoint over used spec functions).
func (fv *FuncVC) finish() {
	defer func() {
		if r := recover(); r != nil {
			if s, ok := r.(vcAbort); ok {
				fv.errorf("%s", string(s))
				return
			}
			panic(r)
		}
	}()
	fv.inFinish = true
	fv.curReach = tTrue
	// precompute block ancestry (queries are assembled concurrently and must only read it)
	if fv.Fn != nil {
		for _, b := range fv.Fn.Blocks {
			fv.ancestors(b)
		}
	}
	done := map[string]bool{}
	for _, u := range strings.FieldsFunc(fv.FC.Opts["use"], func(r rune) bool { return r == ',' || r == ' ' }) {
		fv.forceAxioms[u] = true
	}
	for changed := true; changed; {
		changed = false
		for _, ax := range fv.W.CS.Axioms {
			if done[ax.Name] {
				continue
			}
			if ax.Lemma && fv.lemmaName == ax.Name {
				continue // a lemma is not available to its own proof
			}
			use := fv.forceAxioms[ax.Name] || strings.Contains(ax.Hint, "always")
			if !use {
				for _, s := range specsIn(ax.E) {
					if fv.usedSpecs[s] {
						use = true
						break
					}
				}
			}
			if fv.noAxioms[ax.Name] {
				use = false
			}
			if !use {
				continue
			}
			done[ax.Name] = true
			changed = true
			env := fv.newEnv(fv.entry, fv.entry)
			env.callee = true
			t := env.boolExpr(ax.E, ax.Pos)
			fv.axioms = append(fv.axioms, t.S)
			fv.usedAxioms[ax.Name] = true
		}
	}
}

// specsIn lists spec-function names called in an expression.
func specsIn(e Expr) []string {
	var out []string
	var walk func(e Expr)
	walk = func(e Expr) {
		switch n := e.(type) {
		case EUnary:
			walk(n.X)
		case EBinary:
			walk(n.X)
			walk(n.Y)
		case ECond:
			walk(n.C)
			walk(n.A)
			walk(n.B)
		case ECall:
			out = append(out, n.Fun)
			for _, a := range n.Args {
				walk(a)
			}
		case ESel:
			walk(n.X)
		case EIndex:
			walk(n.X)
			walk(n.I)
		case EQuant:
			walk(n.Body)
			for _, tr := range n.Triggers {
				for _, t := range tr {
					walk(t)
				}
			}
		}
	}
	walk(e)
	return out
}

func cmdCheck(args []string) int {
	fs := flag.NewFlagSet("check", flag.ExitOnError)
	fn := fs.String("f", "", "comma separated function keys (default: all functions under contract)")
	timeout := fs.Int("t", 20000, "per-obligation timeout (ms)")
	verbose := fs.Bool("v", false, "verbose")
	keep := fs.Bool("keep", false, "keep all query files")
	only := fs.String("o", "", "only obligations whose name contains this")
	model := fs.Bool("m", false, "print models of failed obligations")
	lemmas := fs.Bool("lemmas", false, "also prove lemmas")
	memlem := fs.Bool("memlemmas", false, "also prove the word-level memory axioms")
	rows := fs.String("rows", "", "also check the rows of these registration tables (comma separated)")
	fs.Parse(args)
	KeepQueries = *keep
	p, err := Load(RepoDir, "./...")
	if err != nil {
		fmt.Fprintln(os.Stderr, err)
		return 2
	}
	cs, err := LoadContracts(RepoDir)
	if err != nil {
		fmt.Fprintln(os.Stderr, "contracts:", err)
		return 2
	}
	w := NewWorld(p, cs)
	var keys []string
	if *fn != "" {
		keys = strings.Split(*fn, ",")
	} else {
		for _, k := range cs.Order {
			c := cs.Funcs[k]
			if (!c.Trusted || cs.Body[k] != nil) && !c.Dyn {
				keys = append(keys, k)
			}
		}
	}
	bad := 0
	if *lemmas || *fn == "" {
		var lobls []*Obligation
		for _, ax := range cs.Axioms {
			if !ax.Lemma {
				continue
			}
			lv := w.LemmaVC(ax)
			if len(lv.Errors) > 0 {
				fmt.Printf("lemma %-44s OUT-OF-REACH %v\n", ax.Name, lv.Errors)
				bad++
				continue
			}
			lobls = append(lobls, lv.Obls...)
		}
		lobls = append(lobls, w.BVLemmas()...)
		if *memlem {
			lobls = append(lobls, MemLemmas()...)
		}
		if *rows != "" {
			for _, tb := range strings.Split(*rows, ",") {
				ro, errs := w.RowObligations(tb)
				lobls = append(lobls, ro...)
				for _, e := range errs {
					fmt.Println("    row error:", e)
					bad++
				}
			}
		}
		res := DischargeAll(lobls, *timeout, false, runtime.NumCPU())
		for _, r := range res {
			if r.Status != "unsat" || *verbose {
				fmt.Printf("    %-8s %-60s %5.2fs %s [%s]\n", r.Status, r.Obl.Name, r.Time, r.Obl.Note, strings.Join(r.Tried, " "))
			}
			if r.Status != "unsat" {
				bad++
			}
		}
		fmt.Printf("%-50s %d obligations\n", "lemmas", len(res))
	}
	// generate everything first, then discharge all obligations in one parallel batch
	type grp struct {
		key    string
		lo, hi int
	}
	var groups []grp
	var all []*Obligation
	for _, k := range keys {
		fv, err := w.Generate(k)
		if err != nil {
			fmt.Printf("%-50s ERROR %v\n", k, err)
			bad++
			continue
		}
		if len(fv.Errors) > 0 {
			fmt.Printf("%-50s OUT-OF-REACH\n", k)
			for _, e := range fv.Errors {
				fmt.Printf("    %s\n", e)
			}
			bad++
			continue
		}
		obls := fv.Obls
		if *only != "" {
			var f []*Obligation
			for _, o := range obls {
				if strings.Contains(o.Name, *only) {
					f = append(f, o)
				}
			}
			obls = f
		}
		groups = append(groups, grp{k, len(all), len(all) + len(obls)})
		all = append(all, obls...)
	}
	allRes := DischargeAll(all, *timeout, false, runtime.NumCPU())
	for _, g := range groups {
		k := g.key
		res := allRes[g.lo:g.hi]
		ok := 0
		for _, r := range res {
			if r.Status == "unsat" {
				ok++
			}
		}
		fmt.Printf("%-50s %d/%d discharged\n", k, ok, len(res))
		for _, r := range res {
			if r.Status != "unsat" || *verbose {
				fmt.Printf("    %-8s %-60s %5.2fs %s  %s  [%s]\n", r.Status, r.Obl.Name, r.Time, r.Obl.Pos, r.Obl.Note, strings.Join(r.Tried, " "))
				if r.Status == "sat" && *model {
					m, _ := GetModel(r.Obl, 10000)
					var ks []string
					for k := range m {
						ks = append(ks, k)
					}
					sort.Strings(ks)
					for _, k := range ks {
						fmt.Printf("        %s = %s\n", k, m[k])
					}
				}
				if r.Status == "error" {
					fmt.Printf("        %s\n", firstLines(r.Output, 3))
				}
			}
			if r.Status != "unsat" {
				bad++
			}
		}
	}
	if bad > 0 {
		return 1
	}
	return 0
}

func firstLines(s string, n int) string {
	ls := strings.Split(strings.TrimSpace(s), "\n")
	if len(ls) > n {
		ls = ls[:n]
	}
	return strings.Join(ls, " | ")
}
