package govc

import (
	"fmt"
	"go/token"
	"go/types"
	"sort"
	"strings"

	"golang.org/x/tools/go/ssa"
)

// World holds everything shared between function VCs.
type World struct {
	Prog      *Program
	CS        *Contracts
	FuncByKey map[string]*ssa.Function
	PkgShort  map[string]string // package path -> short name used in keys
	Tables    map[*ssa.Global]*tableInfo
	RegTabs   map[*ssa.Global]*regTable
}

var pkgShortNames = map[string]string{
	"github.com/cloudwego/frugal/internal/reflect": "reflect",
	"github.com/cloudwego/frugal/internal/defs":    "defs",
	"github.com/cloudwego/frugal/internal/opts":    "opts",
	"github.com/cloudwego/frugal":                  "frugal",
	"github.com/cloudwego/frugal/debug":            "debug",
	"reflect":                                      "stdreflect",
	"github.com/cloudwego/gopkg/protocol/thrift":   "thrift",
}

func (w *World) pkgShort(p *types.Package) string {
	if p == nil {
		return ""
	}
	if s, ok := pkgShortNames[p.Path()]; ok {
		return s
	}
	return p.Name()
}

// FuncKey computes the contract key of an SSA function.
func (w *World) FuncKey(f *ssa.Function) string {
	if f.Origin() != nil && f.Origin() != f {
		return w.FuncKey(f.Origin())
	}
	if f.Parent() != nil {
		return w.FuncKey(f.Parent()) + "$" + strings.TrimPrefix(f.Name(), f.Parent().Name()+"$")
	}
	if recv := f.Signature.Recv(); recv != nil {
		t := recv.Type()
		ptr := false
		if p, ok := t.(*types.Pointer); ok {
			t = p.Elem()
			ptr = true
		}
		name := "?"
		var pkg *types.Package
		if n, ok := t.(*types.Named); ok {
			name = n.Obj().Name()
			pkg = n.Obj().Pkg()
		}
		if ptr {
			return w.pkgShort(pkg) + ".(*" + name + ")." + f.Name()
		}
		return w.pkgShort(pkg) + ".(" + name + ")." + f.Name()
	}
	if f.Pkg != nil {
		return w.pkgShort(f.Pkg.Pkg) + "." + f.Name()
	}
	if f.Object() != nil && f.Object().Pkg() != nil {
		return w.pkgShort(f.Object().Pkg()) + "." + f.Name()
	}
	return f.String()
}

func NewWorld(p *Program, cs *Contracts) *World {
	w := &World{Prog: p, CS: cs, FuncByKey: map[string]*ssa.Function{}, Tables: map[*ssa.Global]*tableInfo{}}
	for path := range pkgShortNames {
		pkg := p.ByPath[path]
		if pkg == nil {
			continue
		}
		for _, f := range allFuncs(p, pkg) {
			if f.Synthetic != "" && !strings.Contains(f.Synthetic, "package initializer") {
				continue
			}
			w.FuncByKey[w.FuncKey(f)] = f
		}
	}
	if pkg := p.ByPath["encoding/binary"]; pkg != nil {
		for _, f := range allFuncs(p, pkg) {
			w.FuncByKey[w.FuncKey(f)] = f
		}
	}
	return w
}

// Generate builds the VCs of the function with the given contract key.
func (w *World) Generate(key string) (*FuncVC, error) {
	fn := w.FuncByKey[key]
	if fn == nil {
		return nil, fmt.Errorf("no function %q in the loaded program", key)
	}
	fc := w.CS.Funcs[key]
	if b := w.CS.Body[key]; b != nil {
		fc = b // the function's own code is checked against its body contract
	}
	if fc == nil {
		fc = &FuncContract{Key: key, Opts: map[string]string{}, Name: fn.Name()}
	}
	if fc.Trusted {
		return nil, fmt.Errorf("%s is trusted, not verified", key)
	}
	fv := &FuncVC{W: w, Fn: fn, FC: fc, Key: key, TE: NewTypeEnv(w.Prog.Sizes),
		declared: map[string]bool{}, vals: map[ssa.Value]Term{}, raw: map[ssa.Value]bool{},
		tuples: map[ssa.Value][]Term{}, heapSort: map[string]string{},
		params: map[string]Term{}, paramTy: map[string]types.Type{}, ghostParams: map[string]Term{},
		reach: map[*ssa.BasicBlock]Term{}, out: map[*ssa.BasicBlock]*State{}, edgeCond: map[[2]int]Term{},
		Trusted: map[string]bool{}, callCount: map[string]int{}, oblCount: map[string]int{},
		names: map[*ssa.Alloc]string{}, usedAxioms: map[string]bool{}, rangeIters: map[*ssa.Range]string{},
		localNames: map[string]*ssa.Alloc{}, stringLits: map[string]Term{},
		localSlices: map[ssa.Value]localSlice{}, castChecked: map[*ssa.Range]bool{}, mapKeySorts: map[string]string{},
		usedSpecs: map[string]bool{}, forceAxioms: map[string]bool{}, noAxioms: map[string]bool{}, tablesUsed: map[string]bool{}, regTabsUsed: map[string]bool{}}
	fv.mode = fc.Opts["mode"]
	if _, ok := fc.Opts["abstract"]; ok {
		fv.abstractBSeq = true
	}
	fv.run()
	fv.finish()
	return fv, nil
}

func (fv *FuncVC) run() {
	fn := fv.Fn
	if len(fn.Blocks) == 0 {
		fv.errorf("function has no body")
		return
	}
	defer func() {
		if r := recover(); r != nil {
			if s, ok := r.(vcAbort); ok {
				fv.errorf("%s", string(s))
				return
			}
			// a construct the generator does not survive (e.g. a type go/types cannot size): the
			// function is out of reach, reported like every other unsupported construct
			fv.errorf("generator failure: %v", r)
		}
	}()
	fv.computeEscapes()
	fv.findLoops()
	fv.collectNames()

	st := newState()
	fv.entry = st
	fv.cur = st
	fv.curReach = tTrue

	// parameters
	fc := fv.FC
	var formals []Param
	if fc.Recv != nil {
		formals = append(formals, *fc.Recv)
	}
	formals = append(formals, fc.Params...)
	for i, p := range fn.Params {
		name := p.Name()
		if i < len(formals) {
			name = formals[i].Name
		}
		sortS := fv.TE.SortOf(p.Type())
		if fv.abstractBSeq && fv.isAbstractName(name) && isByteSlice(p.Type()) {
			sortS = SBSeq
		}
		t := fv.declare("in."+mangle(name), sortS)
		t.T = p.Type()
		fv.vals[p] = t
		fv.params[name] = t
		fv.paramTy[name] = p.Type()
		if sortS != SBSeq {
			fv.assume(fv.TE.rangeFact(t, p.Type()))
		}
	}
	for _, fvv := range fn.FreeVars {
		t := fv.declare("fv."+mangle(fvv.Name()), fv.TE.SortOf(fvv.Type()))
		t.T = fvv.Type()
		fv.vals[fvv] = t
		fv.params[fvv.Name()] = t
		fv.paramTy[fvv.Name()] = fvv.Type()
		fv.assume(fv.TE.rangeFact(t, fvv.Type()))
	}
	for _, g := range fc.Ghost {
		gt, gs := fv.resolveType(g.Type)
		t := fv.declare("gh."+mangle(g.Name), gs)
		t.T = gt
		if gt != nil {
			fv.paramTy[g.Name] = gt
		}
		fv.ghostParams[g.Name] = t
		fv.params[g.Name] = t
	}
	// global facts
	fv.assume(Term{S: byteHeapFact(fv.heap(st, "M", SInt)), Sort: SBool})

	// ghost initialisation at entry
	for _, c := range fc.Entry {
		genv := fv.newEnv(st, st)
		v := genv.expr(c.E, c.Pos)
		st.ghost[c.Name] = v
	}
	// requires
	env := fv.newEnv(st, st)
	for _, c := range fc.Requires {
		t := env.boolExpr(c.E, c.Pos)
		fv.assume(t)
	}

	// process blocks in reverse postorder over forward edges
	order := fv.blockOrder()
	for _, b := range order {
		if fn.Recover != nil && b == fn.Recover {
			continue
		}
		fv.processBlock(b)
	}
}

type vcAbort string

func (fv *FuncVC) abort(format string, args ...interface{}) {
	panic(vcAbort(fmt.Sprintf(format, args...)))
}

func isByteSlice(t types.Type) bool {
	s, ok := t.Underlying().(*types.Slice)
	if !ok {
		return false
	}
	b, ok := s.Elem().Underlying().(*types.Basic)
	return ok && b.Kind() == types.Uint8
}

func (fv *FuncVC) isAbstractName(n string) bool {
	for _, a := range strings.FieldsFunc(fv.FC.Opts["abstract"], func(r rune) bool { return r == ',' || r == ' ' }) {
		if a == n {
			return true
		}
	}
	return false
}

// collectNames maps Alloc cells to their source names (naive form comments).
func (fv *FuncVC) collectNames() {
	for _, b := range fv.Fn.Blocks {
		for _, in := range b.Instrs {
			if a, ok := in.(*ssa.Alloc); ok && a.Comment != "" {
				fv.names[a] = a.Comment
				if _, dup := fv.localNames[a.Comment]; !dup {
					fv.localNames[a.Comment] = a
				} else {
					// several cells with the same source name (shadowing): keep the first,
					// others reachable as name#k
					k := 1
					for {
						n := fmt.Sprintf("%s#%d", a.Comment, k)
						if _, dup := fv.localNames[n]; !dup {
							fv.localNames[n] = a
							break
						}
						k++
					}
				}
			}
		}
	}
}

func (fv *FuncVC) isBackEdge(from, to *ssa.BasicBlock) bool {
	return to.Dominates(from)
}

func (fv *FuncVC) blockOrder() []*ssa.BasicBlock {
	fn := fv.Fn
	seen := map[*ssa.BasicBlock]bool{}
	var post []*ssa.BasicBlock
	var dfs func(b *ssa.BasicBlock)
	dfs = func(b *ssa.BasicBlock) {
		seen[b] = true
		// successors in reverse order: loop bodies (first successor of a header) then come
		// before loop exits in the reverse postorder
		for k := len(b.Succs) - 1; k >= 0; k-- {
			s := b.Succs[k]
			if seen[s] || fv.isBackEdge(b, s) {
				continue
			}
			dfs(s)
		}
		post = append(post, b)
	}
	dfs(fn.Blocks[0])
	for i, j := 0, len(post)-1; i < j; i, j = i+1, j-1 {
		post[i], post[j] = post[j], post[i]
	}
	return post
}

// edge condition for pred -> b
func (fv *FuncVC) edge(pred, b *ssa.BasicBlock) Term {
	r := fv.reach[pred]
	if c, ok := fv.edgeCond[[2]int{pred.Index, b.Index}]; ok {
		return and(r, c)
	}
	return r
}

func (fv *FuncVC) processBlock(b *ssa.BasicBlock) {
	fn := fv.Fn
	fv.curBlock = b
	// merge predecessors
	var preds []*ssa.BasicBlock
	for _, p := range b.Preds {
		if fv.isBackEdge(p, b) {
			continue
		}
		if _, ok := fv.out[p]; !ok {
			continue // unreachable / skipped predecessor (e.g. recover)
		}
		preds = append(preds, p)
	}
	var st *State
	var reach Term
	if b == fn.Blocks[0] {
		st = fv.entry.clone()
		reach = tTrue
	} else if len(preds) == 0 {
		// unreachable block
		fv.reach[b] = tFalse
		return
	} else if len(preds) == 1 {
		st = fv.out[preds[0]].clone()
		reach = fv.edge(preds[0], b)
	} else {
		var edges []Term
		defer func() {
			if fv.inEdges == nil {
				fv.inEdges = map[int][]Term{}
			}
			fv.inEdges[b.Index] = edges
		}()
		for _, p := range preds {
			edges = append(edges, fv.edge(p, b))
		}
		reach = or(edges...)
		st = fv.mergeStates(b, preds, edges)
	}
	// name reachability
	rname := fv.declare(fmt.Sprintf("reach.b%d", b.Index), SBool)
	fv.assume(eq(rname, reach))
	fv.reach[b] = rname
	fv.cur = st
	fv.curReach = rname
	fv.curBlock = b

	if li := fv.loopOf[b]; li != nil {
		fv.enterLoop(li)
	}

	for _, in := range b.Instrs {
		fv.instr(in)
	}
	fv.out[b] = fv.cur

	// back edges out of this block: invariant preservation
	for _, s := range b.Succs {
		if fv.isBackEdge(b, s) {
			if li := fv.loopOf[s]; li != nil {
				fv.backEdge(li, b)
			}
		}
	}
}

func (fv *FuncVC) mergeStates(b *ssa.BasicBlock, preds []*ssa.BasicBlock, edges []Term) *State {
	st := newState()
	// cells
	cellSet := map[*ssa.Alloc]bool{}
	heapSet := map[string]bool{}
	ghostSet := map[string]bool{}
	for _, p := range preds {
		for c := range fv.out[p].cells {
			cellSet[c] = true
		}
		for h := range fv.out[p].heaps {
			heapSet[h] = true
		}
		for g := range fv.out[p].ghost {
			ghostSet[g] = true
		}
	}
	var cells []*ssa.Alloc
	for c := range cellSet {
		cells = append(cells, c)
	}
	sort.Slice(cells, func(i, j int) bool { return cells[i].Name() < cells[j].Name() })
	for _, c := range cells {
		var vs []Term
		all := true
		for _, p := range preds {
			v, ok := fv.out[p].cells[c]
			if !ok {
				all = false
				break
			}
			vs = append(vs, v)
		}
		if !all {
			continue // not defined on all paths: cell not live
		}
		st.cells[c] = fv.mergeVals(fmt.Sprintf("%s.b%d", cellBase(fv, c), b.Index), vs, edges)
	}
	for _, h := range sortedKeysBool(heapSet) {
		var vs []Term
		for _, p := range preds {
			vs = append(vs, fv.heap(fv.out[p], h, elemSortOf(fv.heapSort[h])))
		}
		st.heaps[h] = fv.mergeVals(fmt.Sprintf("%s.b%d", h, b.Index), vs, edges)
	}
	for _, g := range sortedKeysBool(ghostSet) {
		var vs []Term
		all := true
		for _, p := range preds {
			v, ok := fv.out[p].ghost[g]
			if !ok {
				if strings.HasPrefix(g, "$iter") {
					all = false
					break
				}
				v = fv.ghostEntry(g)
			}
			vs = append(vs, v)
		}
		if !all {
			continue
		}
		st.ghost[g] = fv.mergeVals(fmt.Sprintf("%s.b%d", g, b.Index), vs, edges)
	}
	return st
}

func cellBase(fv *FuncVC, c *ssa.Alloc) string {
	n := fv.names[c]
	if n == "" {
		n = c.Name()
	}
	return "c." + mangle(n) + "." + c.Name()
}

func sortedKeysBool(m map[string]bool) []string {
	var ks []string
	for k := range m {
		ks = append(ks, k)
	}
	sort.Strings(ks)
	return ks
}

func (fv *FuncVC) mergeVals(name string, vs []Term, edges []Term) Term {
	same := true
	for _, v := range vs[1:] {
		if v.S != vs[0].S {
			same = false
			break
		}
	}
	if same {
		return vs[0]
	}
	t := fv.freshConst(name, vs[0].Sort)
	t.T = vs[0].T
	for i, v := range vs {
		if v.Sort != t.Sort {
			fv.errorf("merge of different sorts for %s: %s vs %s", name, v.Sort, t.Sort)
			continue
		}
		fv.assume(implies(edges[i], eq(t, v)))
	}
	return t
}

// ---------------------------------------------------------------------------
// loops

func (fv *FuncVC) loopInvs(li *loopInfo) []Clause {
	var out []Clause
	for _, c := range fv.FC.Invs {
		if c.Loop == li.Ordinal {
			out = append(out, c)
		}
	}
	return out
}

func (fv *FuncVC) enterLoop(li *loopInfo) {
	invs := fv.loopInvs(li)
	// 1. invariant holds on entry
	env := fv.newEnv(fv.cur, fv.entry)
	env.cells = true
	for k, c := range invs {
		t := env.boolExpr(c.E, c.Pos)
		fv.oblige(fmt.Sprintf("inv%d.entry", li.Ordinal), invLabel(c, k), t, token.NoPos, c.Src)
	}
	li.pre = fv.cur.clone()
	if fv.FC.Opts["opt"] != "noframe" {
		fv.frameObligations(fmt.Sprintf("inv%d.entry", li.Ordinal), token.NoPos)
	}
	// 2. havoc
	cells, heaps, ghosts := fv.loopModified(li)
	var cs []*ssa.Alloc
	for c := range cells {
		cs = append(cs, c)
	}
	sort.Slice(cs, func(i, j int) bool { return cs[i].Name() < cs[j].Name() })
	st := fv.cur
	for _, c := range cs {
		old, ok := st.cells[c]
		if !ok {
			continue // declared inside the loop
		}
		t := fv.freshConst(cellBase(fv, c)+".l", old.Sort)
		t.T = old.T
		st.cells[c] = t
		if old.Sort != SBSeq {
			fv.assumeHere(fv.TE.rangeFact(t, c.Type().(*types.Pointer).Elem()))
		}
	}
	// loop-modifies clauses narrow the havoc of heaps
	var lm []Clause
	for _, c := range fv.FC.LoopMods {
		if c.Loop == li.Ordinal {
			lm = append(lm, c)
		}
	}
	lmEnv := fv.newEnv(li.pre, fv.entry)
	lmEnv.cells = true
	narrowed, _ := fv.clausesByHeap(lmEnv, lm)
	for _, h := range sortedKeysBool(heaps) {
		old := fv.heap(st, h, elemSortOf(fv.heapSort[h]))
		nh := fv.newHeapVersion(h)
		if cl, ok := narrowed[h]; ok {
			envPre := fv.newEnv(li.pre, fv.entry)
			envPre.cells = true
			fv.assumeHere(fv.frameAxiom(envPre, h, old, nh, cl))
		}
		st.heaps[h] = nh
		if h == "M" {
			fv.assume(Term{S: byteHeapFact(nh), Sort: SBool})
		}
	}
	for _, g := range sortedKeysBool(ghosts) {
		old, ok := st.ghost[g]
		sortS := SInt
		if ok {
			sortS = old.Sort
		} else if gs, ok2 := fv.W.ghostSort(g); ok2 {
			sortS = gs
		}
		st.ghost[g] = fv.freshConst("g."+mangle(g)+".l", sortS)
		if g == "$brk" {
			// implicit invariant: the allocation watermark never moves down (checked at back edges)
			fv.assumeHere(le(fv.ghostVal(li.pre, "$brk"), st.ghost[g]))
		}
	}
	// 2b. implicit frame invariant: at the loop head every havocked heap still differs
	// from its entry version only inside the function's modifies clause (checked on
	// entry and at every back edge, see frameObligations).
	li.heaps = sortedKeysBool(heaps)
	if fv.FC.Opts["opt"] != "noframe" {
		envE := fv.newEnv(fv.entry, fv.entry)
		byHeap, _ := fv.clausesByHeap(envE, fv.FC.Modifies)
		for _, h := range li.heaps {
			if strings.HasPrefix(h, "L.") {
				continue
			}
			old := fv.heap(fv.entry, h, elemSortOf(fv.heapSort[h]))
			fv.assumeHere(fv.frameAxiom(envE, h, old, st.heaps[h], byHeap[h]))
		}
	}
	// 3. assume invariants (and inferred facts)
	env = fv.newEnv(fv.cur, fv.entry)
	env.loopPre = li.pre
	env.cells = true
	for _, c := range invs {
		fv.assumeHere(env.boolExpr(c.E, c.Pos))
	}
	fv.inferredLoopFacts(li)
	li.head = fv.cur.clone()
	// 4. decreases snapshot
	li.decr0 = nil
	for _, c := range fv.FC.LoopDecr {
		if c.Loop == li.Ordinal {
			li.decr0 = append(li.decr0, env.intExpr(c.E, c.Pos))
		}
	}
}

func invLabel(c Clause, k int) string {
	if c.Name != "" {
		return c.Name
	}
	return fmt.Sprintf("%d", k)
}

// inferredLoopFacts adds facts about range loops that hold by construction of
// the SSA lowering: the hidden range index satisfies -1 <= idx < len.
func (fv *FuncVC) inferredLoopFacts(li *loopInfo) {
	for c, n := range fv.names {
		if n != "rangeindex" {
			continue
		}
		v, ok := fv.cur.cells[c]
		if !ok {
			continue
		}
		// find the loop this rangeindex belongs to: it is stored in header
		inLoop := false
		for _, in := range li.Header.Instrs {
			if s, ok := in.(*ssa.Store); ok && s.Addr == c {
				inLoop = true
			}
		}
		if !inLoop {
			continue
		}
		fv.assumeHere(le(intLit(-1), v))
		// upper bound: idx < len where len is the value compared in the header
		for _, in := range li.Header.Instrs {
			if bo, ok := in.(*ssa.BinOp); ok && bo.Op == token.LSS {
				if lt2, ok := fv.vals[bo.Y]; ok {
					fv.assumeHere(lt(v, lt2))
				}
			}
		}
	}
	// map iterators: 0 <= pos
	for r, g := range fv.rangeIters {
		_ = r
		if v, ok := fv.cur.ghost[g]; ok {
			fv.assumeHere(le(intLit(0), v))
		}
	}
}

func (fv *FuncVC) backEdge(li *loopInfo, from *ssa.BasicBlock) {
	save, saveR := fv.cur, fv.curReach
	fv.curReach = fv.edge(from, li.Header)
	env := fv.newEnv(fv.cur, fv.entry)
	env.loopPre = li.pre
	env.loopHead = li.head
	env.cells = true
	hk := 0
	for _, c := range fv.FC.LoopHints {
		if c.Loop != li.Ordinal {
			continue
		}
		t := env.boolExpr(c.E, c.Pos)
		fv.oblige(fmt.Sprintf("loop%d.hint", li.Ordinal), invLabel(c, hk), t, token.NoPos, c.Src)
		hk++
	}
	for k, c := range fv.loopInvs(li) {
		t := env.boolExpr(c.E, c.Pos)
		fv.oblige(fmt.Sprintf("inv%d.preserve", li.Ordinal), invLabel(c, k), t, token.NoPos, c.Src)
	}
	if fv.FC.Opts["opt"] != "noframe" {
		fv.frameObligations(fmt.Sprintf("inv%d.preserve", li.Ordinal), token.NoPos)
	}
	if hb, ok := li.head.ghost["$brk"]; ok {
		fv.oblige(fmt.Sprintf("inv%d.preserve", li.Ordinal), "brk", le(hb, fv.ghostVal(fv.cur, "$brk")), token.NoPos, "allocation watermark is monotone")
	}
	i := 0
	for _, c := range fv.FC.LoopDecr {
		if c.Loop == li.Ordinal && i < len(li.decr0) {
			m := env.intExpr(c.E, c.Pos)
			fv.oblige(fmt.Sprintf("loop%d.decreases", li.Ordinal), "", and(le(intLit(0), li.decr0[i]), lt(m, li.decr0[i])), token.NoPos, c.Src)
			i++
		}
	}
	fv.cur, fv.curReach = save, saveR
}

// ---------------------------------------------------------------------------
// returns

func (fv *FuncVC) doReturn(r *ssa.Return) {
	fc := fv.FC
	fv.retCount++
	// ghost assignments at exit (locals and results by name, old() = entry state)
	for _, c := range fc.Exit {
		genv := fv.newEnv(fv.cur, fv.entry)
		genv.cells = true
		for i, res := range r.Results {
			if i < len(fc.Results) {
				genv.vars[fc.Results[i].Name] = fv.val(res)
			}
		}
		v := genv.expr(c.E, c.Pos)
		nv := fv.freshConst("g."+mangle(c.Name), v.Sort)
		fv.assumeHere(eq(nv, v))
		fv.cur.ghost[c.Name] = nv
	}
	env := fv.newEnv(fv.cur, fv.entry)
	for i, res := range r.Results {
		name := fmt.Sprintf("$%d", i)
		if i < len(fc.Results) {
			name = fc.Results[i].Name
		}
		v := fv.val(res)
		env.vars[name] = v
	}
	for k, c := range fc.Ensures {
		t := env.boolExpr(c.E, c.Pos)
		label := fmt.Sprintf("%d", k)
		if c.Name != "" {
			label = c.Name
		}
		fv.oblige("post", label, t, r.Pos(), c.Src)
	}
	// assert clauses: conditions on the exit state that are checked but not exported
	for k, c := range fc.Asserts {
		t := env.boolExpr(c.E, c.Pos)
		label := fmt.Sprintf("%d", k)
		if c.Name != "" {
			label = c.Name
		}
		fv.oblige("check", label, t, r.Pos(), c.Src)
	}
	fv.checkFrame(env, r.Pos())
}

// checkFrame generates frame obligations: every heap changed since entry may
// differ from its entry version only inside the declared modifies set.
func (fv *FuncVC) checkFrame(env *Env, pos token.Pos) {
	fc := fv.FC
	if fc.Opts["opt"] == "noframe" {
		return // frame deliberately not checked (stated in the contract)
	}
	before := len(fv.Obls)
	fv.frameObligations("frame", pos)
	if len(fv.Obls) == before {
		// no heap version differs from its entry version on this path: the frame holds syntactically
		fv.oblige("frame", "unchanged", tTrue, pos, "no heap is written on this path")
	}
	envPre := fv.newEnv(fv.entry, fv.entry)
	byHeap, _ := fv.clausesByHeap(envPre, fc.Modifies)
	for _, g := range sortedKeys(fv.cur.ghost) {
		if strings.HasPrefix(g, "$iter") {
			continue
		}
		local := false
		for _, c := range fc.Entry {
			if c.Name == g {
				local = true // function-local ghost (initialised at entry)
			}
		}
		if local {
			continue
		}
		cur := fv.cur.ghost[g]
		old, ok := fv.entry.ghost[g]
		if !ok {
			old = fv.ghostEntry(g)
		}
		if cur.S == old.S {
			continue
		}
		if _, ok := byHeap["ghost:"+g]; ok {
			continue
		}
		if g == "$brk" {
			// allocating fresh memory is never a frame violation; the watermark only moves up
			fv.oblige("frame", g, le(old, cur), pos, "allocation watermark is monotone")
			continue
		}
		fv.oblige("frame", g, eq(cur, old), pos, "ghost "+g+" not in modifies clause")
	}
}

// frameObligations: every heap changed since entry differs from its entry
// version only inside the modifies clause (or in memory allocated since entry).
func (fv *FuncVC) frameObligations(kind string, pos token.Pos) {
	envPre := fv.newEnv(fv.entry, fv.entry)
	byHeap, _ := fv.clausesByHeap(envPre, fv.FC.Modifies)
	for _, h := range sortedKeys(fv.cur.heaps) {
		cur := fv.cur.heaps[h]
		old := fv.heap(fv.entry, h, elemSortOf(fv.heapSort[h]))
		if cur.S == old.S {
			continue
		}
		if strings.HasPrefix(h, "L.") { // function-local heap cells
			continue
		}
		t := fv.frameAxiom(envPre, h, old, cur, byHeap[h])
		what := h
		if kind != "frame" {
			what = "frame." + h
		}
		fv.oblige(kind, what, t, pos, "heap "+h+" changes only inside the modifies clause")
	}
}
