package govc

import (
	"fmt"
	"go/token"
	"go/types"
	"os"
	"path/filepath"
	"strings"

	"golang.org/x/tools/go/ssa"
)

// newBareVC creates a FuncVC without an SSA function (for lemmas and guards).
func (w *World) newBareVC(key string) *FuncVC {
	fv := &FuncVC{W: w, FC: &FuncContract{Key: key, Opts: map[string]string{}}, Key: key, TE: NewTypeEnv(w.Prog.Sizes),
		declared: map[string]bool{}, vals: map[ssa.Value]Term{}, raw: map[ssa.Value]bool{},
		tuples: map[ssa.Value][]Term{}, heapSort: map[string]string{},
		params: map[string]Term{}, paramTy: map[string]types.Type{}, ghostParams: map[string]Term{},
		reach: map[*ssa.BasicBlock]Term{}, out: map[*ssa.BasicBlock]*State{}, edgeCond: map[[2]int]Term{},
		Trusted: map[string]bool{}, callCount: map[string]int{}, oblCount: map[string]int{},
		names: map[*ssa.Alloc]string{}, usedAxioms: map[string]bool{}, rangeIters: map[*ssa.Range]string{},
		localNames: map[string]*ssa.Alloc{}, stringLits: map[string]Term{},
		localSlices: map[ssa.Value]localSlice{}, castChecked: map[*ssa.Range]bool{}, mapKeySorts: map[string]string{},
		usedSpecs: map[string]bool{}, forceAxioms: map[string]bool{}, noAxioms: map[string]bool{}, tablesUsed: map[string]bool{}, regTabsUsed: map[string]bool{}}
	fv.entry = newState()
	fv.cur = fv.entry
	fv.curReach = tTrue
	return fv
}

// substIdent replaces free occurrences of identifier name by repl.
func substIdent(e Expr, name string, repl Expr) Expr {
	switch n := e.(type) {
	case EIdent:
		if n.Name == name {
			return repl
		}
		return n
	case EUnary:
		return EUnary{n.Op, substIdent(n.X, name, repl)}
	case EBinary:
		return EBinary{n.Op, substIdent(n.X, name, repl), substIdent(n.Y, name, repl)}
	case ECond:
		return ECond{substIdent(n.C, name, repl), substIdent(n.A, name, repl), substIdent(n.B, name, repl)}
	case ECall:
		var args []Expr
		for _, a := range n.Args {
			args = append(args, substIdent(a, name, repl))
		}
		return ECall{n.Fun, args}
	case ESel:
		return ESel{substIdent(n.X, name, repl), n.Sel}
	case EIndex:
		return EIndex{substIdent(n.X, name, repl), substIdent(n.I, name, repl)}
	case EQuant:
		for _, v := range n.Vars {
			if v.Name == name {
				return n
			}
		}
		var trs [][]Expr
		for _, tr := range n.Triggers {
			var ts []Expr
			for _, t := range tr {
				ts = append(ts, substIdent(t, name, repl))
			}
			trs = append(trs, ts)
		}
		return EQuant{n.Forall, n.Vars, trs, substIdent(n.Body, name, repl)}
	}
	return e
}

// LemmaVC builds the obligations proving lemma ax from the axioms and the lemmas
// stated before it (never from itself or later lemmas).
func (w *World) LemmaVC(ax *Axiom) *FuncVC {
	fv := w.newBareVC("lemma." + ax.Name)
	fv.lemmaName = ax.Name
	// later lemmas are not available
	seen := false
	for _, a := range w.CS.Axioms {
		if a == ax {
			seen = true
		}
		if seen && a.Lemma {
			fv.noAxioms[a.Name] = true
		}
	}
	func() {
		defer func() {
			if r := recover(); r != nil {
				if s, ok := r.(vcAbort); ok {
					fv.errorf("%s", string(s))
					return
				}
				panic(r)
			}
		}()
		env := fv.newEnv(fv.entry, fv.entry)
		env.callee = true
		ind := ""
		for _, f := range strings.Fields(ax.Hint) {
			_ = f
		}
		if hs := strings.Fields(ax.Hint); len(hs) >= 2 && hs[0] == "induction" {
			ind = hs[1]
		}
		q, isQ := ax.E.(EQuant)
		if ind == "" || !isQ || !q.Forall {
			t := env.boolExpr(ax.E, ax.Pos)
			fv.oblige("lemma", "", t, token.NoPos, ax.Src)
			return
		}
		// induction on variable ind: assume P[ind-1] for all other variables, prove P[ind]
		scope := map[string]Term{}
		var guards []Term
		for _, v := range q.Vars {
			t, so := fv.resolveType(v.Type)
			c := fv.declare("lv."+v.Name, so)
			c.T = t
			scope[v.Name] = c
			if t != nil {
				if _, ok := t.Underlying().(*types.Basic); ok {
					guards = append(guards, fv.TE.rangeFact(c, t))
				}
			}
		}
		found := false
		var others []Param
		for _, v := range q.Vars {
			if v.Name == ind {
				found = true
			} else {
				others = append(others, v)
			}
		}
		if !found {
			fv.abort("lemma %s: induction variable %s not quantified", ax.Name, ind)
		}
		env.bound = append(env.bound, scope)
		for _, g := range guards {
			fv.assume(g)
		}
		// base: P holds outright for ind <= 0 (no induction hypothesis available)
		kT := scope[ind]
		save := fv.curReach
		fv.curReach = le(kT, intLit(0))
		goalB := env.boolExpr(q.Body, ax.Pos)
		o := fv.oblige("lemma", "base", goalB, token.NoPos, "base case "+ind+" <= 0: "+ax.Src)
		_ = o
		// undo the assumption of the base goal: it was recorded under reach (ind <= 0), harmless for the step
		fv.curReach = save
		fv.assume(lt(intLit(0), kT))
		ihBody := substIdent(q.Body, ind, EBinary{"-", EIdent{ind}, EInt{"1"}})
		var ihTrig [][]Expr
		for _, tr := range q.Triggers {
			// in the hypothesis the induction variable is fixed (ind-1): a trigger term that exists only
			// to bind it is dropped when the remaining terms still mention every other variable
			var keep []Expr
			for _, t := range tr {
				if !mentionsIdent(t, ind) {
					keep = append(keep, t)
				}
			}
			covers := len(keep) > 0 && len(keep) < len(tr)
			for _, v := range others {
				seen := false
				for _, t := range keep {
					if mentionsIdent(t, v.Name) {
						seen = true
					}
				}
				if !seen {
					covers = false
				}
			}
			src := tr
			if covers {
				src = keep
			}
			var ts []Expr
			for _, t := range src {
				ts = append(ts, substIdent(t, ind, EBinary{"-", EIdent{ind}, EInt{"1"}}))
			}
			ihTrig = append(ihTrig, ts)
		}
		var ih Expr = ihBody
		if len(others) > 0 {
			ih = EQuant{true, others, ihTrig, ihBody}
		}
		fv.assume(env.boolExpr(ih, ax.Pos))
		goal := env.boolExpr(q.Body, ax.Pos)
		fv.oblige("lemma", "step", goal, token.NoPos, "induction step on "+ind+": "+ax.Src)
	}()
	fv.finish()
	return fv
}

// BVLemmas returns raw-SMT obligations justifying the bit-vector axioms (opt bv NAME).
func (w *World) BVLemmas() []*Obligation {
	var out []*Obligation
	for _, ax := range w.CS.Axioms {
		hs := strings.Fields(ax.Hint)
		if len(hs) >= 2 && hs[0] == "bv" {
			file := filepath.Join(filepath.Dir(TrustedDir), "contracts", "bv", hs[1]+".smt2")
			data, err := os.ReadFile(file)
			o := &Obligation{Name: "bvlemma/" + ax.Name, Kind: "bvlemma", Expect: "unsat", Note: "QF_BV justification of axiom " + ax.Name + " (" + file + ")"}
			if err != nil {
				o.Raw = "(assert true)(check-sat)"
				o.Note += ": MISSING FILE"
			} else {
				o.Raw = string(data)
			}
			out = append(out, o)
		}
	}
	return out
}

var _ = fmt.Sprint

// MemLemmas: each word-level memory axiom, proved against the byte-level definitions.
func MemLemmas() []*Obligation {
	var out []*Obligation
	for i, ax := range memAxioms() {
		raw := "(set-logic ALL)\n" + rawDefs + "(assert (not " + ax + "))\n(check-sat)\n"
		// strip patterns (the negated axiom is skolemised; patterns are irrelevant)
		out = append(out, &Obligation{Name: fmt.Sprintf("memlemma/%02d", i), Kind: "memlemma", Raw: raw, Expect: "unsat",
			Note: "word-level memory axiom proved from the little-endian byte definitions: " + ax})
	}
	return out
}

// mentionsIdent: does the expression contain the identifier?
func mentionsIdent(e Expr, name string) bool {
	marker := EIdent{"\x00mark"}
	return fmt.Sprintf("%#v", substIdent(e, name, marker)) != fmt.Sprintf("%#v", e)
}
