package govc

import (
	"fmt"
	"go/token"
	"go/types"
	"sort"
	"strings"

	"golang.org/x/tools/go/ssa"
)

// ---------------------------------------------------------------------------
// slices

func (fv *FuncVC) sliceOp(x *ssa.Slice) {
	var lo, hi, mx Term
	hasHi, hasMax := x.High != nil, x.Max != nil
	lo = intLit(0)
	if x.Low != nil {
		lo = fv.val(x.Low)
	}
	if hasHi {
		hi = fv.val(x.High)
	}
	if hasMax {
		mx = fv.val(x.Max)
	}
	switch u := under(x.X.Type()).(type) {
	case *types.Slice:
		s := fv.val(x.X)
		if s.Sort == SBSeq {
			fv.abort("slicing of abstract byte sequence at %s", fv.pos(x.Pos()))
		}
		esz := fv.TE.Sizeof(u.Elem())
		if !hasHi {
			hi = slLen(s)
		}
		capT := slCap(s)
		if hasMax {
			capT = mx
		}
		name := fv.srcName(x.X)
		// 0 <= lo <= hi <= max <= cap
		cond := and(le(intLit(0), lo), le(lo, hi), le(hi, capT), le(capT, slCap(s)))
		fv.oblige("slice", name, cond, x.Pos(), "slice bounds in range")
		r := mkSlice(add(slPtr(s), mul(intLit(esz), lo)), sub(hi, lo), sub(capT, lo))
		fv.define(x, r)
	case *types.Basic: // string
		s := fv.val(x.X)
		if !hasHi {
			hi = stLen(s)
		}
		cond := and(le(intLit(0), lo), le(lo, hi), le(hi, stLen(s)))
		fv.oblige("slice", fv.srcName(x.X), cond, x.Pos(), "string slice bounds in range")
		fv.define(x, mkStr(add(stPtr(s), lo), sub(hi, lo)))
	case *types.Pointer: // pointer to array
		at := u.Elem().Underlying().(*types.Array)
		n := intLit(at.Len())
		if !hasHi {
			hi = n
		}
		capT := n
		if hasMax {
			capT = mx
		}
		cond := and(le(intLit(0), lo), le(lo, hi), le(hi, capT), le(capT, n))
		fv.oblige("slice", fv.srcName(x.X), cond, x.Pos(), "array slice bounds in range")
		esz := fv.TE.Sizeof(at.Elem())
		if root := fv.rootCell(x.X); root != nil && !fv.escapes[root] {
			// slice of a local array (varargs, slice literals): fresh backing address,
			// element values remembered for append.
			var p Term
			if at.Len() == 0 {
				// zero-size allocations all share runtime.zerobase
				p = fv.zerobase()
			} else {
				p = fv.freshConst("adr."+x.Name(), SInt)
				fv.assume(lt(intLit(0), p))
			}
			r := mkSlice(add(p, mul(intLit(esz), lo)), sub(hi, lo), sub(capT, lo))
			fv.define(x, r)
			fv.localSlices[x] = localSlice{cell: root, n: at.Len(), arr: fv.cellLoad(x.X)}
			return
		}
		base := fv.val(x.X)
		fv.define(x, mkSlice(add(base, mul(intLit(esz), lo)), sub(hi, lo), sub(capT, lo)))
	default:
		fv.abort("slice of %s", x.X.Type())
	}
}

type localSlice struct {
	cell *ssa.Alloc
	n    int64
	arr  Term
}

func (fv *FuncVC) makeSlice(x *ssa.MakeSlice) {
	l, c := fv.val(x.Len), fv.val(x.Cap)
	et := x.Type().Underlying().(*types.Slice).Elem()
	esz := fv.TE.Sizeof(et)
	fv.oblige("makeslice", "", and(le(intLit(0), l), le(l, c)), x.Pos(), "make: 0 <= len <= cap")
	p := fv.freshConst("adr."+x.Name(), SInt)
	fv.assume(lt(intLit(0), p))
	brk := fv.ghostVal(fv.cur, "$brk")
	fv.assumeHere(le(brk, p))
	nb := fv.freshConst("g.brk", SInt)
	fv.assumeHere(le(add(p, add(mul(intLit(esz), c), intLit(1))), nb))
	fv.cur.ghost["$brk"] = nb
	fv.define(x, mkSlice(p, l, c))
	// zeroed contents
	fv.zeroRange(p, c, et)
}

// zeroRange models zero-initialisation of n elements of type et at p.
func (fv *FuncVC) zeroRange(p Term, n Term, et types.Type) {
	esz := fv.TE.Sizeof(et)
	type hz struct {
		heap string
		off  int64
		zero Term
	}
	var hs []hz
	var walk func(t types.Type, off int64)
	walk = func(t types.Type, off int64) {
		switch under(t).(type) {
		case *types.Struct:
			si := fv.TE.StructInfo(t)
			for _, f := range si.Fields {
				switch under(f.Type).(type) {
				case *types.Struct:
					walk(f.Type, off+f.Off)
				case *types.Array:
				default:
					hs = append(hs, hz{fv.fieldHeapName(t, f.GoName), off, fv.zeroValue(f.Type)})
					fv.heap(fv.cur, fv.fieldHeapName(t, f.GoName), f.Sort)
				}
			}
		case *types.Array:
		default:
			hn := fv.scalarHeapName(t)
			fv.heap(fv.cur, hn, fv.TE.SortOf(t))
			hs = append(hs, hz{hn, off, fv.zeroValue(t)})
		}
	}
	walk(et, 0)
	for _, h := range hs {
		old := fv.heap(fv.cur, h.heap, elemSortOf(fv.heapSort[h.heap]))
		nh := fv.newHeapVersion(h.heap)
		// every address of the block holds the zero value; outside the block unchanged
		hi := add(p, mul(intLit(esz), n))
		fv.assumeHere(Term{S: fmt.Sprintf("(forall ((a!z Int)) (! (ite (and (<= %s a!z) (< a!z %s)) (= (select %s a!z) %s) (= (select %s a!z) (select %s a!z))) :pattern ((select %s a!z))))",
			p.S, hi.S, nh.S, h.zero.S, nh.S, old.S, nh.S), Sort: SBool})
		fv.setHeap(fv.cur, h.heap, nh)
		if h.heap == "M" {
			fv.assume(Term{S: byteHeapFact(nh), Sort: SBool})
		}
	}
}

// ---------------------------------------------------------------------------
// maps (functional model over a version counter)

func (fv *FuncVC) mapFuns(mt *types.Map) (has, get string, ks, vs string) {
	m := mangle(shortTypeName(mt))
	ks, vs = fv.TE.SortOf(mt.Key()), fv.TE.SortOf(mt.Elem())
	has, get = "maphas."+m, "mapget."+m
	fv.declareFun(has, []string{SInt, SInt, ks}, SBool)
	fv.declareFun(get, []string{SInt, SInt, ks}, vs)
	fv.mapKeySorts[m] = ks
	return
}

func (fv *FuncVC) mapsVersion(s *State) Term { return fv.ghostVal(s, "$maps") }

func (fv *FuncVC) mapLen(s *State, m Term) Term {
	fv.declareFun("maplen", []string{SInt, SInt}, SInt)
	return mk(SInt, "maplen", fv.mapsVersion(s), m)
}

func (fv *FuncVC) lookup(x *ssa.Lookup) {
	switch u := under(x.X.Type()).(type) {
	case *types.Map:
		// registration tables filled by init only: contents read back from the SSA of init
		if ld, ok := x.X.(*ssa.UnOp); ok && ld.Op == token.MUL {
			if g, ok := ld.X.(*ssa.Global); ok {
				if rt := fv.W.regTableOf(g); rt.OK && !(fv.Fn.Name() == "init" || fv.Fn == rt.Reg) {
					v, h := fv.tableLookup(rt, fv.val(x.Index), u.Key())
					if x.CommaOk {
						fv.tuples[x] = []Term{ite(h, v, intLit(0)), h}
					} else {
						fv.define(x, ite(h, v, intLit(0)))
					}
					return
				}
			}
		}
		has, get, _, vs := fv.mapFuns(u)
		m, k := fv.val(x.X), fv.val(x.Index)
		ver := fv.mapsVersion(fv.cur)
		h := mk(SBool, has, ver, m, k)
		g := mk(vs, get, ver, m, k)
		v := ite(h, g, fv.zeroValue(u.Elem()))
		if f := fv.TE.rangeFact(g, u.Elem()); f.S != "true" {
			fv.assume(f)
		}
		if x.CommaOk {
			fv.tuples[x] = []Term{v, h}
		} else {
			fv.define(x, v)
		}
	case *types.Basic: // string index
		s, i := fv.val(x.X), fv.val(x.Index)
		fv.oblige("index", fv.srcName(x.X), and(le(intLit(0), i), lt(i, stLen(s))), x.Pos(), "string index in range")
		fv.define(x, sel(fv.heap(fv.cur, "M", SInt), add(stPtr(s), i)))
	default:
		fv.abort("lookup on %s", x.X.Type())
	}
}

func (fv *FuncVC) mapUpdate(x *ssa.MapUpdate) {
	mt := x.Map.Type().Underlying().(*types.Map)
	has, get, ks, _ := fv.mapFuns(mt)
	m, k, v := fv.val(x.Map), fv.val(x.Key), fv.val(x.Value)
	fv.oblige("nilmap", "", not(eq(m, intLit(0))), x.Pos(), "assignment to entry in non-nil map")
	old := fv.mapsVersion(fv.cur)
	nv := fv.freshConst("g.maps", SInt)
	fv.cur.ghost["$maps"] = nv
	fv.assumeHere(and(mk(SBool, has, nv, m, k), eq(mk(v.Sort, get, nv, m, k), v)))
	fv.assumeHere(Term{S: fmt.Sprintf("(forall ((k!m %s)) (! (=> (not (= k!m %s)) (and (= (%s %s %s k!m) (%s %s %s k!m)) (= (%s %s %s k!m) (%s %s %s k!m)))) :pattern ((%s %s %s k!m)) :pattern ((%s %s %s k!m))))",
		ks, k.S, has, nv.S, m.S, has, old.S, m.S, get, nv.S, m.S, get, old.S, m.S, has, nv.S, m.S, get, nv.S, m.S), Sort: SBool})
	fv.otherMapsUnchanged(mt, m, old, nv)
}

// otherMapsUnchanged: a map update does not change any other map object.
func (fv *FuncVC) otherMapsUnchanged(mt *types.Map, m, old, nv Term) {
	for d := range fv.declared {
		if !strings.HasPrefix(d, "maphas.") {
			continue
		}
		suffix := strings.TrimPrefix(d, "maphas.")
		get := "mapget." + suffix
		ks := fv.mapKeySorts[suffix]
		if ks == "" {
			continue
		}
		same := suffix == mangle(shortTypeName(mt))
		guard := "true"
		if same {
			guard = fmt.Sprintf("(not (= m!o %s))", m.S)
		}
		fv.assumeHere(Term{S: fmt.Sprintf("(forall ((m!o Int) (k!m %s)) (! (=> %s (and (= (%s %s m!o k!m) (%s %s m!o k!m)) (= (%s %s m!o k!m) (%s %s m!o k!m)))) :pattern ((%s %s m!o k!m)) :pattern ((%s %s m!o k!m))))",
			ks, guard, d, nv.S, d, old.S, get, nv.S, get, old.S, d, nv.S, get, nv.S), Sort: SBool})
	}
}

func (fv *FuncVC) mapDelete(mt *types.Map, m, k Term) {
	has, get, ks, _ := fv.mapFuns(mt)
	old := fv.mapsVersion(fv.cur)
	nv := fv.freshConst("g.maps", SInt)
	fv.cur.ghost["$maps"] = nv
	fv.assumeHere(not(mk(SBool, has, nv, m, k)))
	fv.assumeHere(Term{S: fmt.Sprintf("(forall ((k!m %s)) (! (=> (not (= k!m %s)) (and (= (%s %s %s k!m) (%s %s %s k!m)) (= (%s %s %s k!m) (%s %s %s k!m)))) :pattern ((%s %s %s k!m)) :pattern ((%s %s %s k!m))))",
		ks, k.S, has, nv.S, m.S, has, old.S, m.S, get, nv.S, m.S, get, old.S, m.S, has, nv.S, m.S, get, nv.S, m.S), Sort: SBool})
	fv.otherMapsUnchanged(mt, m, old, nv)
}

// map iteration: ghost position, entries enumerated by entryK/entryV (A-RANGE)
func (fv *FuncVC) rangeInit(x *ssa.Range) {
	if _, ok := x.X.Type().Underlying().(*types.Map); !ok {
		fv.abort("range over %s is not supported", x.X.Type())
	}
	g := fv.rangeIterName(x)
	fv.cur.ghost[g] = intLit(0)
	m := fv.val(x.X)
	fv.setVal(x, m)
}

func (fv *FuncVC) rangeNext(x *ssa.Next) {
	r, ok := x.Iter.(*ssa.Range)
	if !ok || x.IsString {
		fv.abort("next on non-map range")
	}
	mt := r.X.Type().Underlying().(*types.Map)
	g := fv.rangeIterName(r)
	j := fv.ghostVal(fv.cur, g)
	m := fv.val(r)
	fv.declareFun("entryK", []string{SInt, SInt}, SInt)
	fv.declareFun("entryV", []string{SInt, SInt}, SInt)
	fv.declareFun("nmaplen", []string{SInt}, SInt)
	n := ite(eq(m, intLit(0)), intLit(0), mk(SInt, "nmaplen", m))
	okT := lt(j, n)
	M := fv.heap(fv.cur, "M", SInt)
	kAddr := mk(SInt, "entryK", m, j)
	vAddr := mk(SInt, "entryV", m, j)
	k := fv.rawLoad(M, kAddr, mt.Key())
	v := fv.rawLoad(M, vAddr, mt.Elem())
	kc := fv.freshConst("r."+x.Name()+".k", k.Sort)
	vc := fv.freshConst("r."+x.Name()+".v", v.Sort)
	fv.assume(eq(kc, k))
	fv.assume(eq(vc, v))
	fv.assume(fv.TE.rangeFact(kc, mt.Key()))
	fv.assume(fv.TE.rangeFact(vc, mt.Elem()))
	// A-BOOL: a Go bool in memory is the byte 0 or 1
	if fv.TE.SortOf(mt.Key()) == SBool {
		fv.assume(le(sel(M, kAddr), intLit(1)))
	}
	if fv.TE.SortOf(mt.Elem()) == SBool {
		fv.assume(le(sel(M, vAddr), intLit(1)))
	}
	fv.tuples[x] = []Term{okT, kc, vc}
	fv.cur.ghost[g] = ite(okT, add(j, intLit(1)), j)
	fv.noteMapCast(r, x.Pos())
}

// noteMapCast raises the layout obligation when the ranged map was obtained by
// re-typing memory through unsafe (*(*map[K]V)(p)).
func (fv *FuncVC) noteMapCast(r *ssa.Range, pos token.Pos) {
	if fv.castChecked[r] {
		return
	}
	fv.castChecked[r] = true
	u, ok := r.X.(*ssa.UnOp)
	if !ok || u.Op != token.MUL || !fv.isRaw(u.X) {
		return
	}
	mt := r.X.Type().Underlying().(*types.Map)
	// obligation supplied by contract clause "assert maplayout(...)": handled through
	// the spec function maplayout(kclass, ksize, vsize) if present in the contract set.
	if _, ok := fv.W.CS.Specs["maplayout"]; !ok {
		return
	}
	kc := hashClassOf(mt.Key())
	env := fv.newEnv(fv.cur, fv.entry)
	call := ECall{Fun: "maplayout", Args: []Expr{EIdent{Name: fv.FC.firstParam()}, EInt{Val: fmt.Sprint(kc)},
		EInt{Val: fmt.Sprint(fv.TE.Sizeof(mt.Key()))}, EInt{Val: fmt.Sprint(fv.TE.Sizeof(mt.Elem()))}}}
	t := env.boolExpr(call, fv.FC.Pos)
	fv.oblige("maplayout", shortTypeName(mt), t, pos, "static map type used for the unsafe cast matches the descriptor")
}

func (fc *FuncContract) firstParam() string {
	if fc.Recv != nil {
		return fc.Recv.Name
	}
	if len(fc.Params) > 0 {
		return fc.Params[0].Name
	}
	return "t"
}

// hashClassOf: 1 = memhash of the key bytes (ints, bool), 2 = string hash, 3 = float64 hash, 4 = other
func hashClassOf(t types.Type) int {
	if b, ok := t.Underlying().(*types.Basic); ok {
		switch {
		case b.Info()&types.IsString != 0:
			return 2
		case b.Info()&types.IsFloat != 0:
			return 3
		case b.Info()&(types.IsInteger|types.IsBoolean) != 0:
			return 1
		}
	}
	return 4
}

func (fv *FuncVC) makeClosure(x *ssa.MakeClosure) {
	fn := x.Fn.(*ssa.Function)
	name := "clo." + mangle(fv.W.FuncKey(fn))
	var sorts []string
	var args []Term
	for _, b := range x.Bindings {
		t := fv.val(b)
		sorts = append(sorts, t.Sort)
		args = append(args, t)
	}
	if len(args) == 0 {
		fv.setVal(x, fv.funcConst(fn))
		return
	}
	fv.declareFun(name, sorts, SInt)
	r := mk(SInt, name, args...)
	fv.assume(lt(intLit(0), r))
	fv.setVal(x, r)
}

// ---------------------------------------------------------------------------
// calls

func (fv *FuncVC) call(x *ssa.Call) {
	c := x.Call
	if b, ok := c.Value.(*ssa.Builtin); ok {
		fv.builtin(x, b)
		return
	}
	var fc *FuncContract
	var key string
	var args []Term
	var argTypes []types.Type
	switch {
	case c.IsInvoke():
		recvT := c.Value.Type()
		key = "iface:" + mangle(shortTypeNameStd(recvT)) + "." + c.Method.Name()
		fc = fv.W.CS.Funcs[key]
		args = append(args, fv.val(c.Value))
		argTypes = append(argTypes, recvT)
	case c.StaticCallee() != nil:
		callee := c.StaticCallee()
		key = fv.W.FuncKey(callee)
		fc = fv.W.CS.Funcs[key]
		if b := fv.W.CS.Body[key]; b != nil && key == fv.Key {
			// a recursive call inside the function's own body proof: the induction hypothesis is the
			// body contract, not the assumed caller-side contract
			fc = b
		}
	default:
		// dynamic call through a function value: contract keyed by the struct field it was loaded from
		if u, ok := c.Value.(*ssa.UnOp); ok && u.Op == token.MUL {
			if fa, ok := u.X.(*ssa.FieldAddr); ok {
				st := fa.X.Type().Underlying().(*types.Pointer).Elem()
				si := fv.TE.StructInfo(st)
				key = "dyn:" + shortTypeName(st) + "." + si.Fields[fa.Field].GoName
				fc = fv.W.CS.Funcs[key]
				if fc != nil {
					args = append(args, fv.val(fa.X)) // self
					argTypes = append(argTypes, fa.X.Type())
					fv.oblige("nilfunc", si.Fields[fa.Field].GoName, not(eq(fv.val(c.Value), intLit(0))), x.Pos(), "call through non-nil function value")
				}
			}
		}
		if key == "" {
			fv.abort("dynamic call at %s has no contract", fv.pos(x.Pos()))
		}
	}
	for _, a := range c.Args {
		args = append(args, fv.val(a))
		argTypes = append(argTypes, a.Type())
	}
	if fc == nil {
		fv.abort("call to %s at %s: callee has no contract (out of reach)", key, fv.pos(x.Pos()))
	}
	if fc.Trusted {
		fv.Trusted[key] = true
	}
	n := fv.callOrdinal(x, key)
	results := fv.applyContract(x, fc, key, args, argTypes, c.Signature().Results())
	switch len(results) {
	case 0:
	case 1:
		fv.setVal(x, results[0])
	default:
		fv.tuples[x] = results
	}
	fv.ghostAfter(key, n, x, results, fc)
}

// shortCallee is the callee name used in call/after clauses.
func shortCallee(key string) string {
	short := strings.TrimPrefix(strings.TrimPrefix(key, "dyn:"), "iface:")
	if i := strings.LastIndex(short, "."); i >= 0 {
		short = short[i+1:]
	}
	return short
}

// ghostAfter executes the ghost assignments anchored after this call site.
func (fv *FuncVC) ghostAfter(key string, n int, site ssa.Instruction, results []Term, fc *FuncContract) {
	short := shortCallee(key)
	for _, c := range fv.FC.After {
		parts := strings.SplitN(c.Name, "|", 2)
		if !(parts[0] == fmt.Sprintf("%s#%d", short, n) || parts[0] == short) {
			continue
		}
		env := fv.newEnv(fv.cur, fv.entry)
		env.cells = true
		// results of the call are visible under the callee's result names prefixed by "res_"
		for i, r := range results {
			if i < len(fc.Results) {
				env.vars["res_"+fc.Results[i].Name] = r
				if a, ok := fv.lastAbs[fc.Results[i].Name]; ok {
					env.vars["abs_"+fc.Results[i].Name] = a
				}
			}
		}
		for k, a := range fv.lastAbs {
			if strings.HasPrefix(k, "arg:") {
				env.vars["abs_"+k[4:]] = a
			}
		}
		v := env.expr(c.E, c.Pos)
		old := fv.ghostVal(fv.cur, parts[1])
		if v.Sort != old.Sort {
			fv.abort("ghost %s has sort %s, assigned %s (%s)", parts[1], old.Sort, v.Sort, c.Pos)
		}
		nv := fv.freshConst("g."+mangle(parts[1]), v.Sort)
		fv.assumeHere(eq(nv, v))
		fv.cur.ghost[parts[1]] = nv
	}
}

// afterGhosts lists ghosts assigned after calls to the given callee key.
func (fv *FuncVC) afterGhosts(key string) []string {
	short := shortCallee(key)
	var out []string
	for _, c := range fv.FC.After {
		parts := strings.SplitN(c.Name, "|", 2)
		name := parts[0]
		if i := strings.Index(name, "#"); i >= 0 {
			name = name[:i]
		}
		if name == short {
			out = append(out, parts[1])
		}
	}
	return out
}

func shortTypeNameStd(t types.Type) string {
	return types.TypeString(t, func(p *types.Package) string { return p.Name() })
}

// applyContract checks the callee's preconditions, havocs its frame and assumes its postconditions.
func (fv *FuncVC) applyContract(site ssa.Instruction, fc *FuncContract, key string, args []Term, argTypes []types.Type, resTuple *types.Tuple) []Term {
	n := fv.callOrdinal(site, key)
	fv.callCount[key] = n + 1
	short := shortCallee(key)
	pre := fv.cur.clone()
	env := fv.newEnv(fv.cur, pre)
	env.callee = true
	var formals []Param
	if fc.Recv != nil {
		formals = append(formals, *fc.Recv)
	}
	formals = append(formals, fc.Params...)
	if len(formals) != len(args) {
		fv.abort("contract %s has %d parameters, call has %d arguments", key, len(formals), len(args))
	}
	env.vars = map[string]Term{}
	// concrete byte slices handed to a callee that treats them as an abstract accumulator (A-APPEND)
	var concArg *Term
	var concName string
	var concAbs Term
	for i, f := range formals {
		a := args[i]
		if a.T == nil {
			a.T = argTypes[i]
		}
		if fc.isAbstract(f.Name) && a.Sort == SSlice {
			if concArg != nil {
				fv.abort("call of %s passes two concrete slices as abstract accumulators", key)
			}
			ca := a
			concArg = &ca
			ab := fv.freshConst("abs."+mangle(f.Name), SBSeq)
			fv.assumeHere(eq(mk(SInt, "slen", ab), slLen(a)))
			a = ab
			concName, concAbs = f.Name, ab
		}
		env.vars[f.Name] = a
	}
	// ghost arguments
	for _, g := range fc.Ghost {
		var bound bool
		for _, cg := range fv.FC.CallGhost {
			parts := strings.SplitN(cg.Name, "|", 2)
			if parts[1] == g.Name && (parts[0] == fmt.Sprintf("%s#%d", short, n) || parts[0] == short) {
				cenv := fv.newEnv(fv.cur, fv.entry)
				gv := cenv.expr(cg.E, cg.Pos)
				if gt, _ := fv.resolveType(g.Type); gt != nil {
					gv.T = gt
				}
				env.vars[g.Name] = gv
				bound = true
			}
		}
		if !bound {
			gt, gs := fv.resolveType(g.Type)
			gv := fv.freshConst("gh."+mangle(g.Name), gs)
			gv.T = gt
			env.vars[g.Name] = gv
		}
	}
	// preconditions
	for k, c := range fc.Requires {
		t := env.boolExpr(c.E, c.Pos)
		label := fmt.Sprintf("%s#%d.%d", short, n, k)
		if c.Name != "" {
			label = fmt.Sprintf("%s#%d.%s", short, n, c.Name)
		}
		fv.oblige("pre", label, t, site.Pos(), c.Src)
	}
	// a callee that may panic under a stated condition: the caller must exclude it, unless the
	// caller's own contract allows panics without restriction
	if w, ok := fc.Opts["panics"]; ok {
		w = strings.TrimSpace(strings.TrimPrefix(strings.TrimSpace(w), "when"))
		cw := strings.TrimSpace(strings.TrimPrefix(strings.TrimSpace(fv.FC.Opts["panics"]), "when"))
		_, callerMay := fv.FC.Opts["panics"]
		if !(callerMay && (cw == "" || cw == "true")) {
			// what the caller's own contract allows (parameters: entry values; state: now)
			allowed := tFalse
			if callerMay {
				if ce, err := ParseExpr(cw); err == nil {
					cenv := fv.newEnv(fv.cur, fv.entry)
					allowed = cenv.boolExpr(ce, fv.FC.Pos)
				} else {
					fv.abort("panics clause: %v", err)
				}
			}
			if w == "" || w == "true" {
				fv.oblige("pre", fmt.Sprintf("%s#%d.nopanic", short, n), allowed, site.Pos(), "callee may panic unconditionally")
			} else if pe, err := ParseExpr(w); err == nil {
				fv.oblige("pre", fmt.Sprintf("%s#%d.nopanic", short, n), implies(env.boolExpr(pe, fc.Pos), allowed), site.Pos(), "callee's panic condition is excluded or allowed by the caller's contract: "+w)
			} else {
				fv.abort("panics clause of %s: %v", key, err)
			}
		}
	}
	// termination of recursion
	if len(fc.Decr) > 0 && len(fv.FC.Decr) > 0 {
		m := env.intExpr(fc.Decr[0].E, fc.Decr[0].Pos)
		eenv := fv.newEnv(fv.entry, fv.entry)
		m0 := eenv.intExpr(fv.FC.Decr[0].E, fv.FC.Decr[0].Pos)
		fv.oblige("decreases", fmt.Sprintf("%s#%d", short, n), and(le(intLit(0), m0), lt(m, m0)), site.Pos(), "recursion measure decreases")
	}
	// havoc frame (the stepwise frame check runs after the postconditions have been assumed)
	fv.noStepFrame = true
	fv.havocModifies(fc, env, pre)
	fv.noStepFrame = false
	// results
	var results []Term
	nres := 0
	if resTuple != nil {
		nres = resTuple.Len()
	}
	for i := 0; i < nres; i++ {
		rt := resTuple.At(i).Type()
		name := fmt.Sprintf("$%d", i)
		if i < len(fc.Results) {
			name = fc.Results[i].Name
		}
		sortS := fv.TE.SortOf(rt)
		if isByteSlice(rt) && fc.isAbstract(name) {
			sortS = SBSeq
		}
		r := fv.freshConst(fmt.Sprintf("res.%s.%s", mangle(short), mangle(name)), sortS)
		r.T = rt
		if sortS != SBSeq {
			fv.assume(fv.TE.rangeFact(r, rt))
		}
		env.vars[name] = r
		results = append(results, r)
	}
	// postconditions are evaluated in the new state, old() in pre
	env.st = fv.cur
	for _, c := range fc.Ensures {
		fv.assumeHere(env.boolExpr(c.E, c.Pos))
	}
	// concrete reading of abstract accumulator results: the postconditions above speak about
	// memory before the accumulator's bytes were written (the value is read, then written out)
	fv.lastAbs = map[string]Term{}
	if concArg != nil {
		fv.lastAbs["arg:"+concName] = concAbs
	}
	for i, r := range results {
		if r.Sort == SBSeq && concArg != nil {
			name := fmt.Sprintf("$%d", i)
			if i < len(fc.Results) {
				name = fc.Results[i].Name
			}
			fv.lastAbs[name] = r
			results[i] = fv.concretize(short, name, r, *concArg, pre, r.T)
		}
	}
	if m, ok := fv.cur.heaps["M"]; ok {
		if pm, ok2 := pre.heaps["M"]; !ok2 || pm.S != m.S {
			fv.setHeap(fv.cur, "M", m) // triggers the stepwise frame obligation
		}
	}
	return results
}

// concretize gives the concrete reading of an abstract accumulator result (assumption A-APPEND,
// the semantics of Go's append lifted over callees that use the accumulator only through append):
// the result slice holds exactly the abstract sequence; it is the argument's array when the
// sequence fits into the argument's capacity and a fresh array otherwise; memory changes only in
// the argument's spare capacity [ptr+len, ptr+cap) (only in the appended positions when the
// result fits) and in memory allocated during the call.
func (fv *FuncVC) concretize(short, name string, abs Term, arg Term, pre *State, rt types.Type) Term {
	r := fv.freshConst(fmt.Sprintf("res.%s.%s.conc", mangle(short), mangle(name)), SSlice)
	r.T = rt
	fv.assume(fv.TE.rangeFact(r, rt))
	n := mk(SInt, "slen", abs)
	brk0 := fv.ghostVal(pre, "$brk")
	brk1 := fv.ghostVal(fv.cur, "$brk")
	fv.assumeHere(eq(slLen(r), n))
	fv.assumeHere(le(slLen(r), slCap(r)))
	fits := le(n, slCap(arg))
	fv.assumeHere(implies(fits, and(eq(slPtr(r), slPtr(arg)), eq(slCap(r), slCap(arg)))))
	fv.assumeHere(implies(not(fits), and(le(brk0, slPtr(r)), le(add(slPtr(r), slCap(r)), brk1))))
	old := fv.heap(fv.cur, "M", SInt)
	nh := fv.newHeapVersion("M")
	// while everything fits only the appended positions are written; after a reallocation
	// earlier appends may have filled any part of the old spare capacity
	lo, hi := add(slPtr(arg), slLen(arg)), add(slPtr(arg), ite(fits, n, slCap(arg)))
	fv.assumeHere(Term{S: fmt.Sprintf("(forall ((a!f Int)) (! (=> (and (< a!f %s) (or (< a!f %s) (>= a!f %s))) (= (select %s a!f) (select %s a!f))) :pattern ((select %s a!f))))",
		brk0.S, lo.S, hi.S, nh.S, old.S, nh.S), Sort: SBool})
	fv.assume(Term{S: byteHeapFact(nh), Sort: SBool})
	fv.assumeHere(Term{S: fmt.Sprintf("(forall ((i!c Int)) (! (=> (and (<= 0 i!c) (< i!c %s)) (= (select %s (+ %s i!c)) (at %s i!c))) :pattern ((at %s i!c))))",
		n.S, nh.S, slPtr(r).S, abs.S, abs.S), Sort: SBool})
	fv.setHeap(fv.cur, "M", nh)
	return r
}

func (fc *FuncContract) isAbstract(name string) bool {
	for _, a := range strings.FieldsFunc(fc.Opts["abstract"], func(r rune) bool { return r == ',' || r == ' ' }) {
		if a == name {
			return true
		}
	}
	return false
}

// havocModifies gives fresh versions to everything in fc's modifies clause,
// with frame axioms relating them to the old versions.
func (fv *FuncVC) havocModifies(fc *FuncContract, env *Env, pre *State) {
	penv := *env
	penv.st = pre
	byHeap, order := fv.clausesByHeap(&penv, fc.Modifies)
	if _, ok := byHeap["ghost:$brk"]; !ok && !fc.Trusted {
		// any verified callee may allocate: the watermark moves up by an unknown amount
		old := fv.ghostVal(fv.cur, "$brk")
		nb := fv.freshConst("g.brk", SInt)
		fv.assumeHere(le(old, nb))
		fv.cur.ghost["$brk"] = nb
	}
	for _, hn := range order {
		if strings.HasPrefix(hn, "ghost:") {
			g := strings.TrimPrefix(hn, "ghost:")
			old := fv.ghostVal(fv.cur, g)
			fv.cur.ghost[g] = fv.freshConst("g."+mangle(g), old.Sort)
			continue
		}
		if strings.HasPrefix(hn, "cell:") {
			continue
		}
		old := fv.heap(fv.cur, hn, elemSortOf(fv.heapSort[hn]))
		nh := fv.newHeapVersion(hn)
		fv.assumeHere(fv.frameAxiom(&penv, hn, old, nh, byHeap[hn]))
		fv.setHeap(fv.cur, hn, nh)
		if hn == "M" {
			fv.assume(Term{S: byteHeapFact(nh), Sort: SBool})
		}
	}
}

// callModifies lists heaps / ghosts a call instruction may modify (for loop havoc).
func (fv *FuncVC) callModifies(ci ssa.CallInstruction) (heaps []string, ghosts []string) {
	c := ci.Common()
	if b, ok := c.Value.(*ssa.Builtin); ok {
		switch b.Name() {
		case "append":
			if st, ok := c.Args[0].Type().Underlying().(*types.Slice); ok {
				if !(fv.abstractBSeq && isByteSlice(c.Args[0].Type())) {
					heaps = append(heaps, fv.heapsOfType(st.Elem())...)
					ghosts = append(ghosts, "$brk")
				}
			}
		case "copy":
			if st, ok := c.Args[0].Type().Underlying().(*types.Slice); ok {
				heaps = append(heaps, fv.heapsOfType(st.Elem())...)
			}
		case "delete":
			ghosts = append(ghosts, "$maps")
		}
		return
	}
	var fc *FuncContract
	switch {
	case c.IsInvoke():
		fc = fv.W.CS.Funcs["iface:"+mangle(shortTypeNameStd(c.Value.Type()))+"."+c.Method.Name()]
		ghosts = append(ghosts, fv.afterGhosts("iface:"+mangle(shortTypeNameStd(c.Value.Type()))+"."+c.Method.Name())...)
	case c.StaticCallee() != nil:
		fc = fv.W.CS.Funcs[fv.W.FuncKey(c.StaticCallee())]
		if b := fv.W.CS.Body[fv.W.FuncKey(c.StaticCallee())]; b != nil && fv.W.FuncKey(c.StaticCallee()) == fv.Key {
			fc = b
		}
		ghosts = append(ghosts, fv.afterGhosts(fv.W.FuncKey(c.StaticCallee()))...)
	default:
		if u, ok := c.Value.(*ssa.UnOp); ok && u.Op == token.MUL {
			if fa, ok := u.X.(*ssa.FieldAddr); ok {
				st := fa.X.Type().Underlying().(*types.Pointer).Elem()
				si := fv.TE.StructInfo(st)
				fc = fv.W.CS.Funcs["dyn:"+shortTypeName(st)+"."+si.Fields[fa.Field].GoName]
			}
		}
	}
	if fc == nil {
		return
	}
	if !fc.Trusted {
		ghosts = append(ghosts, "$brk")
	}
	_, order := fv.clausesByHeap(fv.dummyEnv(fc), fc.Modifies)
	for _, hn := range order {
		if strings.HasPrefix(hn, "ghost:") {
			ghosts = append(ghosts, strings.TrimPrefix(hn, "ghost:"))
		} else if !strings.HasPrefix(hn, "cell:") {
			heaps = append(heaps, hn)
		}
	}
	return
}

// ---------------------------------------------------------------------------
// builtins

func (fv *FuncVC) builtin(x *ssa.Call, b *ssa.Builtin) {
	args := x.Call.Args
	switch b.Name() {
	case "ssa:deferstack":
		fv.setVal(x, intLit(0))
	case "ssa:wrapnilchk":
		fv.setVal(x, fv.val(args[0]))
	case "len":
		v := fv.val(args[0])
		switch v.Sort {
		case SSlice:
			fv.setVal(x, slLen(v))
		case SStr:
			fv.setVal(x, stLen(v))
		case SBSeq:
			fv.setVal(x, mk(SInt, "slen", v))
		default:
			if _, ok := args[0].Type().Underlying().(*types.Map); ok {
				fv.setVal(x, fv.mapLen(fv.cur, v))
				return
			}
			fv.abort("len of %s", args[0].Type())
		}
	case "cap":
		v := fv.val(args[0])
		if v.Sort != SSlice {
			fv.abort("cap of %s", v.Sort)
		}
		fv.setVal(x, slCap(v))
	case "Add":
		fv.define(x, add(fv.val(args[0]), fv.val(args[1])))
	case "Slice":
		p, n := fv.val(args[0]), fv.val(args[1])
		fv.oblige("unsafeslice", "", le(intLit(0), n), x.Pos(), "unsafe.Slice length is non-negative")
		fv.define(x, mkSlice(p, n, n))
	case "String":
		p, n := fv.val(args[0]), fv.val(args[1])
		fv.oblige("unsafestring", "", le(intLit(0), n), x.Pos(), "unsafe.String length is non-negative")
		fv.define(x, mkStr(p, n))
	case "SliceData":
		fv.setVal(x, slPtr(fv.val(args[0])))
	case "StringData":
		fv.setVal(x, stPtr(fv.val(args[0])))
	case "append":
		fv.appendOp(x)
	case "copy":
		fv.copyOp(x)
	case "delete":
		mt := args[0].Type().Underlying().(*types.Map)
		fv.mapDelete(mt, fv.val(args[0]), fv.val(args[1]))
	default:
		fv.abort("unsupported builtin %s at %s", b.Name(), fv.pos(x.Pos()))
	}
}

func (fv *FuncVC) appendOp(x *ssa.Call) {
	args := x.Call.Args
	dst := fv.val(args[0])
	st := args[0].Type().Underlying().(*types.Slice)
	et := st.Elem()
	// elements
	if dst.Sort == SBSeq {
		r := dst
		srcV := args[1]
		if ls, ok := fv.localSliceOf(srcV); ok {
			for i := int64(0); i < ls.n; i++ {
				r = mk(SBSeq, "snoc", r, mk(SInt, "select", ls.arr, intLit(i)))
			}
		} else {
			src := fv.val(srcV)
			M := fv.heap(fv.cur, "M", SInt)
			switch src.Sort {
			case SStr:
				r = mk(SBSeq, "catm", r, M, stPtr(src), stLen(src))
			case SSlice:
				r = mk(SBSeq, "catm", r, M, slPtr(src), slLen(src))
			default:
				fv.abort("append of %s to abstract sequence", src.Sort)
			}
		}
		fv.define(x, r)
		return
	}
	if dst.Sort != SSlice {
		fv.abort("append to %s", dst.Sort)
	}
	// concrete model: in place when capacity allows, otherwise a fresh block
	esz := fv.TE.Sizeof(et)
	var n Term
	var elems []Term
	var src Term
	ls, isLocal := fv.localSliceOf(args[1])
	if isLocal {
		n = intLit(ls.n)
		for i := int64(0); i < ls.n; i++ {
			elems = append(elems, mk(elemSortOf(ls.arr.Sort), "select", ls.arr, intLit(i)))
		}
	} else {
		src = fv.val(args[1])
		if src.Sort == SStr {
			n = stLen(src)
		} else {
			n = slLen(src)
		}
	}
	newLen := add(slLen(dst), n)
	inPlace := le(newLen, slCap(dst))
	np := fv.freshConst("adr."+x.Name()+".p", SInt)
	nc := fv.freshConst(x.Name()+".cap", SInt)
	brk := fv.ghostVal(fv.cur, "$brk")
	nb := fv.freshConst("g.brk", SInt)
	fv.cur.ghost["$brk"] = nb
	fv.assumeHere(le(brk, nb))
	fv.assumeHere(implies(inPlace, and(eq(np, slPtr(dst)), eq(nc, slCap(dst)))))
	fv.assumeHere(implies(not(inPlace), and(lt(intLit(0), np), le(brk, np), le(newLen, nc), le(add(np, mul(intLit(esz), nc)), nb))))
	res := mkSlice(np, newLen, nc)
	fv.define(x, res)
	// contents
	hs := fv.heapsOfType(et)
	if _, isStruct := et.Underlying().(*types.Struct); isStruct || len(hs) != 1 {
		// struct elements: per-field heaps
		si := fv.TE.StructInfo(et)
		if si == nil || !isLocal {
			fv.abort("append of struct-element slices supports only explicit elements at %s", fv.pos(x.Pos()))
		}
		for _, f := range si.Fields {
			switch under(f.Type).(type) {
			case *types.Struct, *types.Array:
				fv.abort("append: nested struct field %s", f.GoName)
			}
			hn := fv.fieldHeapName(et, f.GoName)
			old := fv.heap(fv.cur, hn, f.Sort)
			nh := fv.newHeapVersion(hn)
			fv.appendFacts(old, nh, dst, np, nc, esz, inPlace, func(i int64) Term { return mk(f.Sort, f.Name, elems[i]) }, int64(len(elems)), Term{}, Term{})
			fv.setHeap(fv.cur, hn, nh)
		}
		return
	}
	hn := hs[0]
	old := fv.heap(fv.cur, hn, fv.TE.SortOf(et))
	nh := fv.newHeapVersion(hn)
	if isLocal {
		fv.appendFacts(old, nh, dst, np, nc, esz, inPlace, func(i int64) Term { return elems[i] }, int64(len(elems)), Term{}, Term{})
	} else {
		sp := slPtr(src)
		if src.Sort == SStr {
			sp = stPtr(src)
		}
		fv.appendFacts(old, nh, dst, np, nc, esz, inPlace, nil, 0, sp, n)
	}
	fv.setHeap(fv.cur, hn, nh)
	if hn == "M" {
		fv.assume(Term{S: byteHeapFact(nh), Sort: SBool})
	}
}

// appendFacts relates the element heap before (old) and after (nh) an append.
func (fv *FuncVC) appendFacts(old, nh Term, dst Term, np, nc Term, esz int64, inPlace Term, elem func(int64) Term, nelem int64, srcPtr, srcLen Term) {
	l := slLen(dst)
	endOld := add(np, mul(intLit(esz), l))
	// old elements preserved at the new location
	fv.assumeHere(Term{S: fmt.Sprintf("(forall ((a!a Int)) (! (=> (and (<= %s a!a) (< a!a %s)) (= (select %s a!a) (select %s (+ (- a!a %s) %s)))) :pattern ((select %s a!a))))",
		np.S, endOld.S, nh.S, old.S, np.S, slPtr(dst).S, nh.S), Sort: SBool})
	if esz > 1 {
		// the same, element-wise, in the form index terms take elsewhere (E-matching cannot see
		// that np + (a - np) ... is the address of element j of the old array)
		fv.ix(np, intLit(0), esz)
		fv.assumeHere(Term{S: fmt.Sprintf("(forall ((j!a Int)) (! (=> (and (<= 0 j!a) (< j!a %s)) (= (select %s (ix.%d %s j!a)) (select %s (ix.%d %s j!a)))) :pattern ((select %s (ix.%d %s j!a)))))",
			l.S, nh.S, esz, np.S, old.S, esz, slPtr(dst).S, nh.S, esz, np.S), Sort: SBool})
	}
	if elem != nil {
		for i := int64(0); i < nelem; i++ {
			fv.assumeHere(eq(sel(nh, fv.ix(np, add(l, intLit(i)), esz)), elem(i)))
		}
	} else {
		endNew := add(endOld, mul(intLit(esz), srcLen))
		fv.assumeHere(Term{S: fmt.Sprintf("(forall ((a!a Int)) (! (=> (and (<= %s a!a) (< a!a %s)) (= (select %s a!a) (select %s (+ (- a!a %s) %s)))) :pattern ((select %s a!a))))",
			endOld.S, endNew.S, nh.S, old.S, endOld.S, srcPtr.S, nh.S), Sort: SBool})
	}
	// everything outside [np + l*esz, np + cap*esz) (in place) resp. outside the fresh block is unchanged
	lo := ite(inPlace, endOld, np)
	hi := add(np, mul(intLit(esz), nc))
	fv.assumeHere(Term{S: fmt.Sprintf("(forall ((a!a Int)) (! (=> (or (< a!a %s) (>= a!a %s)) (= (select %s a!a) (select %s a!a))) :pattern ((select %s a!a))))",
		lo.S, hi.S, nh.S, old.S, nh.S), Sort: SBool})
}

func (fv *FuncVC) localSliceOf(v ssa.Value) (localSlice, bool) {
	ls, ok := fv.localSlices[v]
	if ok {
		// re-read the array cell: stores happened after the Slice instruction? (the builder
		// stores elements before slicing, so the snapshot is current)
		return ls, true
	}
	return localSlice{}, false
}

func (fv *FuncVC) copyOp(x *ssa.Call) {
	args := x.Call.Args
	dst, src := fv.val(args[0]), fv.val(args[1])
	if dst.Sort == SBSeq || src.Sort == SBSeq {
		fv.abort("copy involving abstract byte sequence")
	}
	st := args[0].Type().Underlying().(*types.Slice)
	et := st.Elem()
	esz := fv.TE.Sizeof(et)
	hs := fv.heapsOfType(et)
	if len(hs) != 1 {
		// struct elements: copy field-wise
		si := fv.TE.StructInfo(et)
		if si == nil {
			fv.abort("copy of %s", et)
		}
	}
	var sp, sn Term
	if src.Sort == SStr {
		sp, sn = stPtr(src), stLen(src)
	} else {
		sp, sn = slPtr(src), slLen(src)
	}
	n := ite(le(slLen(dst), sn), slLen(dst), sn)
	nn := fv.freshConst("r."+x.Name(), SInt)
	fv.assume(eq(nn, n))
	fv.setVal(x, nn)
	for _, hn := range hs {
		old := fv.heap(fv.cur, hn, elemSortOf(fv.heapSort[hn]))
		nh := fv.newHeapVersion(hn)
		hi := add(slPtr(dst), mul(intLit(esz), nn))
		fv.assumeHere(Term{S: fmt.Sprintf("(forall ((a!c Int)) (! (ite (and (<= %s a!c) (< a!c %s)) (= (select %s a!c) (select %s (+ (- a!c %s) %s))) (= (select %s a!c) (select %s a!c))) :pattern ((select %s a!c))))",
			slPtr(dst).S, hi.S, nh.S, old.S, slPtr(dst).S, sp.S, nh.S, old.S, nh.S), Sort: SBool})
		fv.setHeap(fv.cur, hn, nh)
		if hn == "M" {
			fv.assume(Term{S: byteHeapFact(nh), Sort: SBool})
		}
	}
}

// zerobase is the address Go uses for all zero-size allocations. A-ADDR: it lies
// below 64 KiB, outside every heap object and user buffer.
func (fv *FuncVC) zerobase() Term {
	t := fv.declare("adr.zerobase", SInt)
	if !fv.declared["zerobasefact"] {
		fv.declared["zerobasefact"] = true
		fv.assumeGlobal(and(lt(intLit(0), t), lt(t, intLit(65536))))
	}
	return t
}

// callOrdinal numbers the call sites of a callee in source order (stable under
// changes of the block processing order).
func (fv *FuncVC) callOrdinal(site ssa.Instruction, key string) int {
	if fv.callOrd == nil {
		fv.callOrd = map[ssa.Instruction]int{}
		type cs struct {
			in  ssa.Instruction
			pos int
			blk int
			idx int
		}
		by := map[string][]cs{}
		for _, b := range fv.Fn.Blocks {
			for i, in := range b.Instrs {
				ci, ok := in.(ssa.CallInstruction)
				if !ok {
					continue
				}
				k := fv.calleeKey(ci)
				if k == "" {
					continue
				}
				by[k] = append(by[k], cs{in, int(in.Pos()), b.Index, i})
			}
		}
		for _, l := range by {
			sort.Slice(l, func(i, j int) bool {
				if l[i].pos != l[j].pos {
					return l[i].pos < l[j].pos
				}
				if l[i].blk != l[j].blk {
					return l[i].blk < l[j].blk
				}
				return l[i].idx < l[j].idx
			})
			for i, c := range l {
				fv.callOrd[c.in] = i
			}
		}
	}
	if n, ok := fv.callOrd[site]; ok {
		return n
	}
	return fv.callCount[key]
}

func (fv *FuncVC) calleeKey(ci ssa.CallInstruction) string {
	c := ci.Common()
	if _, ok := c.Value.(*ssa.Builtin); ok {
		return ""
	}
	switch {
	case c.IsInvoke():
		return "iface:" + mangle(shortTypeNameStd(c.Value.Type())) + "." + c.Method.Name()
	case c.StaticCallee() != nil:
		return fv.W.FuncKey(c.StaticCallee())
	default:
		if u, ok := c.Value.(*ssa.UnOp); ok && u.Op == token.MUL {
			if fa, ok := u.X.(*ssa.FieldAddr); ok {
				st := fa.X.Type().Underlying().(*types.Pointer).Elem()
				si := fv.TE.StructInfo(st)
				return "dyn:" + shortTypeName(st) + "." + si.Fields[fa.Field].GoName
			}
		}
	}
	return ""
}
