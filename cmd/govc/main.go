package main

import (
	"os"

	"verif/govc"
)

func main() { os.Exit(govc.Main(os.Args[1:])) }
