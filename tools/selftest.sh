#!/bin/bash
# Must-fail corpus for the machinery itself: every seeded change under /verif/seeded whose meta.json
# names a detecting check is applied to a scratch worktree of /repo's HEAD in turn (tools/seedrun.sh) and that check must report a VIOLATION;
# the unchanged tree must report none. Run after every change to the engine or the contracts.
# usage: tools/selftest.sh [seed-id ...]      (default: all seeds with detected_by)
cd /verif
fail=0
seeds="$@"
[ -z "$seeds" ] && seeds=$(python3 - <<'PY'
import json,glob,os
for m in sorted(glob.glob('/verif/seeded/*/meta.json')):
    d=json.load(open(m))
    if d.get('detected_by'):
        print(os.path.basename(os.path.dirname(m)))
PY
)
for s in $seeds; do
  prop=$(python3 -c "
import json,re
d=json.load(open('/verif/seeded/$s/meta.json'))['detected_by']
print(d['property'] if isinstance(d,dict) else re.match(r'C[0-9]+',d).group(0))")
  out=$(tools/seedrun.sh /verif/seeded/$s/patch.diff $prop 2>&1)
  n=$(echo "$out" | grep -c "^VIOLATION property=$prop")
  if [ "$n" -ge 1 ]; then echo "ok   $s detected by $prop ($n)"; else echo "MISS $s not detected by $prop"; fail=1; fi
done
exit $fail
