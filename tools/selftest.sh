#!/bin/bash
# Must-fail corpus for the machinery itself: every seeded change under /verif/seeded whose meta.json
# names a detecting check is applied to a scratch worktree of /repo's HEAD in turn (tools/seedrun.sh) and
# that check must report a VIOLATION. Run after every change to the engine or the contracts.
# usage: tools/selftest.sh [-j N] [seed-id ...]      (default: all seeds with detected_by, 3 at a time)
cd /verif
J=3
if [ "${1:-}" = "-j" ]; then J=$2; shift 2; fi
seeds="$@"
[ -z "$seeds" ] && seeds=$(python3 - <<'PY'
import json,glob,os
for m in sorted(glob.glob('/verif/seeded/*/meta.json')):
    d=json.load(open(m))
    if d.get('detected_by'):
        print(os.path.basename(os.path.dirname(m)))
PY
)
one() {
  s=$1
  prop=$(python3 -c "
import json,re
d=json.load(open('/verif/seeded/$s/meta.json'))['detected_by']
print(d['property'] if isinstance(d,dict) else re.match(r'C[0-9]+',d).group(0))")
  out=$(tools/seedrun.sh /verif/seeded/$s/patch.diff $prop 2>&1)
  n=$(echo "$out" | grep -c "^VIOLATION property=$prop")
  if [ "$n" -ge 1 ]; then echo "ok   $s detected by $prop ($n)"; else echo "MISS $s not detected by $prop"; fi
}
export -f one
echo $seeds | tr ' ' '\n' | xargs -P $J -I{} bash -c 'one {}' | tee /verif/out/selftest.log
! grep -q "^MISS" /verif/out/selftest.log
