#!/usr/bin/env python3
"""Regenerates /verif/MANIFEST.json from props.json + the claim texts below."""
import json
props=[json.loads(l) for l in open('/verif/properties.jsonl')]
spec={x['id']:x for x in json.load(open('/verif/props.json'))}
claims=json.load(open('/verif/claims.json'))
m=json.load(open('/verif/MANIFEST.json'))
m['checks']=[]
m['not_applicable']=[]
for p in props:
    id=p['id']
    if id in spec and id in claims and claims[id].get('claimed',True):
        c=claims[id]
        m['checks'].append({
         "property_id":id,
         "quick_cmd":"cd /verif && bin/govc prop -p %s -tier quick"%id,
         "thorough_cmd":"cd /verif && bin/govc prop -p %s -tier thorough"%id,
         "evidence_file":"/verif/evidence/%s.json"%id,
         "engine":"govc",
         "replay_cmd_template":"cat {path}/obligation.txt {path}/solver_output.txt; ls {path}",
         "level_claimed":{"category":"proof","text":c['text'],"design_ref":"DESIGN.md section 6/%s"%id},
         "level_note":c['note'],
         "technique":"contract-based deductive verification (GoVC: weakest-precondition VCs over go/ssa of the real code, discharged by z3/cvc5)"})
    else:
        m['not_applicable'].append({"property_id":id,"reason":claims.get(id,{}).get('na',"not yet claimed: contracts for the functions this property depends on are not complete (see DESIGN.md section 6)")})
import subprocess
m['hooks']['source_commits']=subprocess.run(['git','-C','/repo','log','--format=%h','--grep=^verif:'],capture_output=True,text=True).stdout.split()[::-1]
m['notes']="fix: commits in /repo (genuine defects repaired, see known_findings.json): "+' '.join(subprocess.run(['git','-C','/repo','log','--format=%h','--grep=^fix:'],capture_output=True,text=True).stdout.split()[::-1])
m['engines'][0]['serves_properties']=[c['property_id'] for c in m['checks']]
json.dump(m,open('/verif/MANIFEST.json','w'),indent=1)
print(len(m['checks']),'checks',len(m['not_applicable']),'n/a')
