#!/bin/bash
# usage: seedverify.sh <seed-dir> [demo-relative-path] [demo-run-regex]
# Confirms in a scratch worktree that the seeded patch (a) keeps the existing suite green,
# (b) makes the demonstration fail, and that the demonstration passes without it.
set -u
export GOFLAGS=-mod=mod GOPROXY=off GOSUMDB=off GOTOOLCHAIN=local
SEED=$1; DEMO=${2:-tests/seed_demo_test.go}; RUN=${3:-.}
WT=$(mktemp -d /tmp/sv-XXXXXX); rmdir $WT
git -C /repo worktree add -q --detach $WT HEAD || exit 2
trap 'git -C /repo worktree remove --force $WT >/dev/null 2>&1' EXIT
cd $WT
git apply $SEED/patch.diff || { echo "PATCH-DOES-NOT-APPLY"; exit 2; }
suite=ok
for m in . fuzz tests; do (cd $WT/$m && go test -mod=mod -vet=off -count=1 ./... >/tmp/sv.out 2>&1) || { suite=FAIL; tail -5 /tmp/sv.out; }; done
echo "suite-with-patch: $suite"
cp $SEED/$(basename $DEMO) $WT/$DEMO
demodir=$(dirname $DEMO)
(cd $WT/$demodir && go test -mod=mod -vet=off -count=1 -timeout 120s -run "$RUN" . >/tmp/sv.out 2>&1) && with=pass || with=FAIL
echo "demo-with-patch: $with"; grep -m3 -- "--- FAIL\|panic:" /tmp/sv.out
git apply -R $SEED/patch.diff
(cd $WT/$demodir && go test -mod=mod -vet=off -count=1 -timeout 120s -run "$RUN" . >/tmp/sv.out 2>&1) && without=pass || without=FAIL
echo "demo-without-patch: $without"
[ "$suite" = ok ] && [ "$with" = FAIL ] && [ "$without" = pass ] && echo "SEED-CONFIRMED" || echo "SEED-REJECTED"
