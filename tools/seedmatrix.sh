#!/bin/bash
# usage: seedmatrix.sh "<seed>:<prop>[,<prop>...]" ...  -- runs each seed against the listed checks, one line per pair.
cd /verif
for spec in "$@"; do
  seed=${spec%%:*}; props=${spec#*:}
  for p in ${props//,/ }; do
    out=$(tools/seedrun.sh /verif/seeded/$seed/patch.diff $p 2>&1)
    n=$(echo "$out" | grep -c "^VIOLATION")
    first=$(echo "$out" | grep -A1 "^VIOLATION" | grep "obligation" | head -2 | sed 's/^ *obligation //' | cut -c1-110 | tr '\n' ';')
    echo "$seed $p violations=$n $first"
  done
done
