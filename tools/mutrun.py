#!/usr/bin/env python3
"""Mutation run: for each mutant (tools/mutate output) apply it in a scratch worktree, drop it if it does not
compile or if the existing test suite kills it, and run `govc check -f <function>` on the survivors.
usage: mutrun.py <muts.jsonl> <results.tsv> [workers]
A surviving mutant whose function still verifies is a candidate contract gap (or an equivalent mutant)."""
import json, os, subprocess, sys, random, threading, queue, shutil, tempfile
ENV = dict(os.environ, GOFLAGS='-mod=mod', GOPROXY='off', GOSUMDB='off', GOTOOLCHAIN='local')
muts = [json.loads(l) for l in open(sys.argv[1])]
out = sys.argv[2]
K = int(sys.argv[3]) if len(sys.argv) > 3 else 4
done = set()
if os.path.exists(out):
    for l in open(out):
        done.add(l.split('\t')[0])
q = queue.Queue()
for i, m in enumerate(muts):
    mid = '%s:%d:%d:%s' % (os.path.basename(m['file']), m['off'], m['len'], m['new'][:12].replace('\t', ' ').replace('\n', ' '))
    m['id'] = mid
    if mid not in done:
        q.put(m)
lock = threading.Lock()
def sh(cmd, cwd, timeout=600, env=ENV):
    try:
        r = subprocess.run(cmd, shell=True, cwd=cwd, env=env, capture_output=True, text=True, timeout=timeout)
        return r.returncode, r.stdout + r.stderr
    except subprocess.TimeoutExpired:
        return 124, 'timeout'
def worker(n):
    wt = '/tmp/mutwt%d' % n
    outd = '/tmp/mutout%d' % n
    sh('git -C /repo worktree remove --force %s; git -C /repo worktree add -q --detach %s HEAD' % (wt, wt), '/')
    while True:
        try:
            m = q.get_nowait()
        except queue.Empty:
            break
        rel = os.path.relpath(m['file'], '/repo')
        path = os.path.join(wt, rel)
        src = open(m['file'], 'rb').read()
        mut = src[:m['off']] + m['new'].encode() + src[m['off'] + m['len']:]
        open(path, 'wb').write(mut)
        res = None
        rc, o = sh('go build ./... 2>&1 | tail -3', wt)
        rc, o = sh('go vet -tags verif ./internal/... >/dev/null 2>&1; go build ./...', wt)
        if rc != 0:
            res = 'nocompile'
        else:
            for mod, tmo in (('.', 300), ('tests', 300), ('fuzz', 300)):
                rc, o = sh('go test -p 2 -vet=off -count=1 -timeout 120s ./...', os.path.join(wt, mod), timeout=tmo)
                if rc != 0:
                    res = 'killed:' + mod
                    break
        detail = ''
        if res is None:
            env = dict(ENV, GOVC_REPO=wt, GOVC_OUT=outd)
            rc, o = sh("/verif/bin/govc check -t 8000 -f '%s' 2>&1 | grep -v '^    unsat'" % m['func'], '/verif', timeout=900, env=env)
            lines = [l for l in o.splitlines() if l.strip()]
            if 'OUT-OF-REACH' in o:
                res = 'detected:reach'
            elif any(l.startswith('    ') for l in lines):
                res = 'detected'
                detail = ';'.join(l.split()[1] for l in lines if l.startswith('    '))[:200]
            elif 'discharged' in o:
                res = 'MISSED'
            else:
                res = 'nocontract'
                detail = o.strip()[-120:].replace('\n', ' ')
        open(path, 'wb').write(src)
        with lock:
            with open(out, 'a') as f:
                f.write('\t'.join([m['id'], res, m['func'], str(m['line']), m['desc'].replace('\t', ' ').replace('\n', ' '), detail]) + '\n')
    sh('git -C /repo worktree remove --force %s' % wt, '/')
    shutil.rmtree(outd, ignore_errors=True)
ts = [threading.Thread(target=worker, args=(i,)) for i in range(K)]
[t.start() for t in ts]
[t.join() for t in ts]
print('done')
