// mutate lists small syntactic mutations of the functions of a Go file (offsets into the file), as JSON lines.
// usage: mutate <pkgshort> <file.go>
package main

import (
	"encoding/json"
	"fmt"
	"go/ast"
	"go/parser"
	"go/token"
	"os"
	"strconv"
)

type Mut struct {
	File string `json:"file"`
	Func string `json:"func"`
	Off  int    `json:"off"`
	Len  int    `json:"len"`
	New  string `json:"new"`
	Line int    `json:"line"`
	Desc string `json:"desc"`
}

var swaps = map[token.Token][]string{
	token.LSS: {"<="}, token.LEQ: {"<"}, token.GTR: {">="}, token.GEQ: {">"},
	token.EQL: {"!="}, token.NEQ: {"=="}, token.ADD: {"-"}, token.SUB: {"+"},
	token.LAND: {"||"}, token.LOR: {"&&"}, token.SHL: {">>"}, token.SHR: {"<<"}, token.MUL: {"+"},
}

var selSwaps = map[string]string{"T": "WT", "WT": "T", "K": "V", "V": "K", "Size": "FixedSize", "FixedSize": "Size",
	"IsPointer": "SimpleType", "Len": "Cap", "Offset": "ID", "p": "n", "n": "p"}

func main() {
	pkg, file := os.Args[1], os.Args[2]
	src, _ := os.ReadFile(file)
	fset := token.NewFileSet()
	f, err := parser.ParseFile(fset, file, src, 0)
	if err != nil {
		panic(err)
	}
	enc := json.NewEncoder(os.Stdout)
	for _, d := range f.Decls {
		fd, ok := d.(*ast.FuncDecl)
		if !ok || fd.Body == nil {
			continue
		}
		key := pkg + "." + fd.Name.Name
		if fd.Recv != nil && len(fd.Recv.List) == 1 {
			switch t := fd.Recv.List[0].Type.(type) {
			case *ast.StarExpr:
				if id, ok := t.X.(*ast.Ident); ok {
					key = fmt.Sprintf("%s.(*%s).%s", pkg, id.Name, fd.Name.Name)
				}
			case *ast.Ident:
				key = fmt.Sprintf("%s.(%s).%s", pkg, t.Name, fd.Name.Name)
			}
		}
		emit := func(pos token.Pos, n int, nw, desc string) {
			p := fset.Position(pos)
			enc.Encode(Mut{File: file, Func: key, Off: p.Offset, Len: n, New: nw, Line: p.Line, Desc: desc})
		}
		ast.Inspect(fd.Body, func(n ast.Node) bool {
			switch x := n.(type) {
			case *ast.BinaryExpr:
				for _, nw := range swaps[x.Op] {
					emit(x.OpPos, len(x.Op.String()), nw, x.Op.String()+" -> "+nw)
				}
			case *ast.BasicLit:
				if x.Kind == token.INT {
					if v, err := strconv.ParseInt(x.Value, 0, 64); err == nil && v < 70000 {
						emit(x.Pos(), len(x.Value), strconv.FormatInt(v+1, 10), x.Value+" -> "+strconv.FormatInt(v+1, 10))
						if v > 0 {
							emit(x.Pos(), len(x.Value), strconv.FormatInt(v-1, 10), x.Value+" -> "+strconv.FormatInt(v-1, 10))
						}
					}
				}
			case *ast.IfStmt:
				s, e := fset.Position(x.Cond.Pos()).Offset, fset.Position(x.Cond.End()).Offset
				emit(x.Cond.Pos(), e-s, "!("+string(src[s:e])+")", "negate if condition")
			case *ast.SelectorExpr:
				if nw, ok := selSwaps[x.Sel.Name]; ok {
					emit(x.Sel.Pos(), len(x.Sel.Name), nw, "."+x.Sel.Name+" -> ."+nw)
				}
			case *ast.ExprStmt:
				if _, ok := x.X.(*ast.CallExpr); ok {
					s, e := fset.Position(x.Pos()).Offset, fset.Position(x.End()).Offset
					emit(x.Pos(), e-s, "{}", "delete call statement "+string(src[s:min(e, s+30)]))
				}
			case *ast.IncDecStmt:
				s, e := fset.Position(x.Pos()).Offset, fset.Position(x.End()).Offset
				emit(x.Pos(), e-s, "{}", "delete "+string(src[s:e]))
			case *ast.AssignStmt:
				if x.Tok != token.DEFINE {
					s, e := fset.Position(x.Pos()).Offset, fset.Position(x.End()).Offset
					emit(x.Pos(), e-s, "{}", "delete assignment "+string(src[s:min(e, s+40)]))
				}
			case *ast.UnaryExpr:
				if x.Op == token.NOT {
					emit(x.OpPos, 1, "", "drop !")
				}
			}
			return true
		})
	}
}
