#!/bin/bash
# usage: seedrun.sh <patch.diff> <prop> [<prop>...]   -- applies the patch to /repo, runs the checks, reverts.
# Evidence files are rewritten by every run; the ones produced with the patch applied are discarded.
set -u
P=$1; shift
cd /repo && git diff --quiet || { echo "repo dirty"; exit 2; }
SAVE=$(mktemp -d /tmp/evsave.XXXX); cp -a /verif/evidence/. $SAVE/
git -C /repo apply $P || exit 2
for id in "$@"; do
  (cd /verif && bin/govc prop -p $id -tier quick 2>&1 | grep -v "^    \(unsat\)" | tail -12); echo "exit($id)=$?"
done
git -C /repo checkout -- .
cp -a $SAVE/. /verif/evidence/; rm -rf $SAVE
