#!/bin/bash
# usage: seedrun.sh <patch.diff> <prop> [<prop>...]
# Applies the patch to a scratch worktree of /repo's HEAD (never to /repo itself), runs the quick checks
# against that worktree (GOVC_REPO) with queries/evidence redirected to a scratch directory, and removes both.
set -u
P=$1; shift
WT=$(mktemp -d /tmp/seedwt.XXXXXX); rmdir $WT
OUT=$(mktemp -d /tmp/seedout.XXXXXX)
git -C /repo worktree add -q --detach $WT HEAD || exit 2
trap 'git -C /repo worktree remove --force $WT >/dev/null 2>&1; rm -rf $OUT' EXIT
git -C $WT apply $P || exit 2
for id in "$@"; do
  (cd /verif && GOVC_REPO=$WT GOVC_OUT=$OUT bin/govc prop -p $id -tier quick 2>&1 | grep -v "^    \(unsat\)" | tail -12); echo "exit($id)=$?"
done
