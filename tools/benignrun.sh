#!/bin/bash
# usage: benignrun.sh <patch.diff> <function-keys>   -- behaviour-preserving patch: every obligation of the touched functions must still discharge
set -u
P=$1; F=$2
WT=$(mktemp -d /tmp/bnwt.XXXXXX); rmdir $WT
OUT=$(mktemp -d /tmp/bnout.XXXXXX)
git -C /repo worktree add -q --detach $WT HEAD || exit 2
trap 'git -C /repo worktree remove --force $WT >/dev/null 2>&1; rm -rf $OUT' EXIT
git -C $WT apply $P || { echo "PATCH-DOES-NOT-APPLY"; exit 2; }
cd /verif && GOVC_REPO=$WT GOVC_OUT=$OUT bin/govc check -t 20000 -f "$F" 2>&1 | grep -v "^    unsat" | cut -c1-220
