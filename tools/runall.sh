#!/bin/bash
# Runs every claimed check (quick tier by default) on the current /repo tree and prints one line per property.
# usage: tools/runall.sh [quick|thorough]
T=${1:-quick}
cd /verif
rc=0
for id in $(python3 -c "import json;print(' '.join(c['property_id'] for c in json.load(open('/verif/MANIFEST.json'))['checks']))"); do
  out=$(bin/govc prop -p $id -tier $T 2>&1); e=$?
  echo "$id exit=$e $(echo "$out" | tail -1)"
  echo "$out" | grep -E "^(VIOLATION|KNOWN-FINDING|ENGINE-FAULT|TWIN)" 
  [ $e -ne 0 ] && rc=1
done
exit $rc
